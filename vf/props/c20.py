"""C20 - Mobile Allocation decoding selects exactly the flagged cell channels.

MC : spec/MobileAlloc.tla - Decode() written from 44.018 10.5.2.21, the decoder
     as an algorithm with explicit program state; TLC checks `Algorithm refines
     Decode`, the facts of the property text about Decode and one index-bound
     invariant per array access, exhaustively for the scaled universe
     (MC_MobileAlloc.cfg).  MC_MobileAllocTree.cfg is the transcription of the
     tree without the len = 0 return: it must violate FWriteInBounds
     (sensitivity of the invariants).
TV : the real gsm48_decode_mobile_alloc() sliced from the working-tree
     sysinfo.c (real struct gsm_sysinfo_freq / FREQ_TYPE_*), ASan+UBSan, heap
     buffers of exactly the callers' sizes; (a) result records validated
     against Decode, (b) executions at the granularity of the function's own
     log lines validated as runs of the Algorithm (spec/MobAllocTrace.tla).
GEN: spec/MobAllocGen.tla enumerates a complete boundary universe with
     Decode's answers; every case is replayed into the real function.
SI : the callers inside sysinfo.c (which cell allocation / which IE octets
     reach the decoder, and when): spec/SysinfoMA.tla (+MC, +Trace),
     harness/c/drv_sysinfo_ma.c - see "SI1 / SI4 callers" below.
"""
import json
import os
import re
from concurrent.futures import ThreadPoolExecutor

from .. import cbuild, tlc
from ..core import REPO

ID = "C20"
LEVEL = "model_checking"
L23 = os.path.join(REPO, "src/host/layer23")
STALE = 0xaa            # *hopp_len before the call (drv_moballoc.c)
UBSAN_ENV = {"UBSAN_OPTIONS": "print_stacktrace=0:exitcode=98"}   # vla-bound is built recoverable
SHAPE_TAGS = ("alg.f-write", "alg.bit-index", "alg.stop", "no-action-enabled")
MAX_CRASHES = 40        # sanitizer aborts tolerated per driver batch
CLASS_CRASHES = 6       # ... and per input class (len_class) before that class is no longer executed


def _defines(path):
    """All #define directives of a header (with continuation lines), without the include guard."""
    out, lines = [], open(path, encoding="utf-8", errors="replace").read().split("\n")
    i = 0
    while i < len(lines):
        ln = lines[i]
        if re.match(r"^\s*#\s*define\s+\w+", ln):
            blk = [ln]
            while blk[-1].rstrip().endswith("\\") and i + 1 < len(lines):
                i += 1
                blk.append(lines[i])
            m = re.match(r"^\s*#\s*define\s+(\w+)\s*(/\*.*\*/)?\s*$", blk[0])
            if not (m and len(blk) == 1 and re.search(r"_H_*$", m.group(1))):
                out.append("\n".join(blk))
        i += 1
    return "\n".join(out) + "\n"


# ------------------------------------------------------------------ build
def build(ctx):
    sysinfo_c = L23 + "/src/common/sysinfo.c"
    sysinfo_h = L23 + "/include/osmocom/bb/common/sysinfo.h"
    fn = cbuild.slice_with_static_deps(sysinfo_c, [r"^int gsm48_decode_mobile_alloc\s*\("])
    # every macro of the header (the flags and whatever named constants the decoder uses), but for its guard
    masks = _defines(sysinfo_h)
    proto = cbuild.slice_lines(sysinfo_h, r"^int gsm48_decode_mobile_alloc\s*\(", r"\)\s*;")
    s = ctx.scratch
    with open(s + "/moballoc_gen.h", "w") as f:
        f.write("#pragma once\n#include <stdint.h>\n#include <errno.h>\n#include <osmocom/gsm/gsm48_ie.h>\n"
                "/* sliced from sysinfo.h */\n" + masks +
                "void vf_logp(const char *fmt, ...);\n#undef LOGP\n#undef DRR\n#define DRR 0\n"
                "#ifndef LOGL_INFO\n#define LOGL_INFO 3\n#define LOGL_NOTICE 5\n#define LOGL_ERROR 7\n#endif\n"
                "#define LOGP(ss, level, fmt, args...) vf_logp(fmt, ## args)\n"
                "/* sliced from sysinfo.h */\n" + proto)
    with open(s + "/moballoc_slice.c", "w") as f:
        f.write('#include "moballoc_gen.h"\n/* sliced from sysinfo.c */\n' + fn + "\n")
    exe = s + "/drv_moballoc"
    cbuild.cc(exe, [s + "/moballoc_slice.c", cbuild.HC + "/drv_moballoc.c"],
              includes=[s, cbuild.LIBOSMO + "/include"], extra=["-fsanitize-recover=vla-bound"])
    return exe


# ------------------------------------------------------------------ build (SI1 / SI4 callers)
# the public entry points; the static helpers they use (whatever they are called) come with them
SI_SLICES = [r"^int gsm48_decode_chan_h0\s*\(", r"^int gsm48_decode_chan_h1\s*\(",
             r"^int gsm48_decode_mobile_alloc\s*\(",
             r"^int gsm48_decode_sysinfo1\s*\(", r"^int gsm48_decode_sysinfo4\s*\("]


def build_si(ctx):
    """drv_sysinfo_ma: the real SI1 / SI4 handlers, Mobile Allocation decoder and frequency-list
    decoder against the real struct gsm48_sysinfo (see harness/c/drv_sysinfo_ma.c)."""
    sysinfo_c = L23 + "/src/common/sysinfo.c"
    s = ctx.scratch
    parts = ['#include "vf_sysinfo_ma.h"\n'
             "/* stand-ins for what C20 does not talk about: rest octets */\n"
             "static int gsm48_decode_si1_rest(struct gsm48_sysinfo *s, const uint8_t *si, uint8_t len) { return 0; }\n"
             "static int gsm48_decode_si4_rest(struct gsm48_sysinfo *s, const uint8_t *si, uint8_t len) { return 0; }\n"]
    parts.append("/* sliced from sysinfo.c (with the static helpers they call) */\n" +
                 cbuild.slice_with_static_deps(sysinfo_c, SI_SLICES, provided=("gsm48_decode_si1_rest", "gsm48_decode_si4_rest")) + "\n")
    with open(s + "/sysinfo_ma_slice.c", "w") as f:
        f.write("\n".join(parts))
    exe = s + "/drv_sysinfo_ma"
    cbuild.cc(exe, [s + "/sysinfo_ma_slice.c", cbuild.LIBOSMO + "/src/gsm/gsm48_ie.c", cbuild.HC + "/drv_sysinfo_ma.c"],
              includes=[cbuild.HC + "/shim/sysinfo", L23 + "/include", cbuild.LIBOSMO + "/include"])
    return exe


# ------------------------------------------------------------------ cases
CA_SIZES = [0, 1, 2, 3, 7, 8, 9, 15, 16, 17, 31, 32, 33, 56, 63, 64]
CA_BIG = [65, 66, 72, 100, 200, 1024]


def make_ca(rng, size, with0):
    size = min(size, 1024)
    if size == 0:
        return []
    n = size - (1 if with0 else 0)
    n = min(n, 1023)
    style = rng.random()
    if style < 0.2 and n <= 900:
        a = rng.randint(1, 1023 - n + 1)
        body = list(range(a, a + n))                       # one block
    elif style < 0.3 and n >= 1:
        body = sorted(set([1023] + rng.sample(range(1, 1023), n - 1))) if n > 1 else [1023]
    else:
        body = sorted(rng.sample(range(1, 1024), n))
    return ([0] if with0 else []) + body


def make_bitmap(rng, length, style, nca):
    nbits = 8 * length
    bits = [0] * nbits                                     # bits[i-1] = MA C i
    if nbits:
        if style == "random":
            bits = [rng.randint(0, 1) for _ in range(nbits)]
        elif style == "ones":
            bits = [1] * nbits
        elif style == "zero":
            pass
        elif style == "single":
            bits[rng.randrange(nbits)] = 1
        elif style == "lsb":
            bits[0] = 1
        elif style == "msb":
            bits[nbits - 1] = 1
        elif style == "exact":                             # exactly the CA
            bits = [1 if k < nca else 0 for k in range(nbits)]
        elif style == "beyond":                            # only bits beyond the CA
            bits = [1 if (k >= nca and rng.random() < 0.5) else 0 for k in range(nbits)]
            if nca < nbits:
                bits[rng.randrange(nca, nbits)] = 1
        elif style == "edge":                              # last CA bit and the first beyond
            if 1 <= nca <= nbits:
                bits[nca - 1] = 1
            if nca < nbits:
                bits[nca] = 1
            for k in range(nbits):
                if rng.random() < 0.15:
                    bits[k] = 1
        elif style == "sparse":
            bits = [1 if rng.random() < 0.1 else 0 for _ in range(nbits)]
    octs = []
    for o in range(length):                                # IE order: last octet holds MA C 8..1
        base = 8 * (length - 1 - o)
        octs.append(sum(bits[base + b] << b for b in range(8)))
    return octs


STYLES = ["random", "ones", "zero", "single", "lsb", "msb", "exact", "beyond", "edge", "sparse"]


def make_pre(rng, ca):
    r = rng.random()
    if r < 0.3:
        return []
    if r < 0.45:
        return list(ca)
    pool = rng.sample(range(1024), rng.randint(1, 5)) + (rng.sample(ca, min(len(ca), rng.randint(0, 3))) if ca else [])
    return sorted(set(pool))


def rand_case(rng, steps=0):
    r = rng.random()
    if r < 0.05:
        size = rng.choice(CA_BIG)
    elif r < 0.45:
        size = rng.choice(CA_SIZES)
    else:
        size = rng.randint(0, 64)
    ca = make_ca(rng, size, rng.random() < 0.5)
    r = rng.random()
    if r < 0.03:
        length = rng.choice([10, 16, 100, 255])
    else:
        length = rng.choice([0, 1, 1, 2, 3, 4, 5, 6, 7, 8, 8, 8, 9])
    bm = make_bitmap(rng, length, rng.choice(STYLES), len(ca))
    return dict(ca=ca, len=length, bitmap=bm, si4=rng.randint(0, 1), pre=make_pre(rng, ca), steps=steps)


def grid_cases(rng):
    """Deterministic product: all lengths 0..9 x boundary CA sizes x ARFCN 0 in/out x
    bitmap styles x si4."""
    out = []
    for length in range(0, 10):
        for size in [0, 1, 2, 7, 8, 9, 33, 63, 64, 65, 100]:
            for with0 in (0, 1):
                if size == 0 and with0:
                    continue
                for style in ("ones", "lsb", "msb", "beyond", "edge", "random"):
                    ca = make_ca(rng, size, with0)
                    out.append(dict(ca=ca, len=length, bitmap=make_bitmap(rng, length, style, len(ca)),
                                    si4=(len(out) & 1), pre=make_pre(rng, ca), steps=0))
    return out


def case_line(c):
    return "D %d %d %d B %s C %s P %s" % (c["si4"], c["len"], c.get("steps", 0),
                                          " ".join(map(str, c["bitmap"])), " ".join(map(str, c["ca"])),
                                          " ".join(map(str, c["pre"])))


def len_class(c):
    if c["len"] == 0:
        return "len0-" + ("nonempty-ca" if c["ca"] else "empty-ca")
    if c["len"] > 8:
        return "len9plus"
    return "len1-8" + ("-ca-gt-64" if len(c["ca"]) > 64 else "")


# ------------------------------------------------------------------ driver
def mem_kind(rc, err):
    m = re.search(r"AddressSanitizer: ([a-zA-Z-]+)", err)
    if m:
        return "asan-" + m.group(1)
    if "runtime error: index" in err and "out of bounds" in err:
        return "ubsan-index-out-of-bounds"
    if "variable length array bound" in err and rc == 98:
        return "ubsan-vla-bound"
    m = re.search(r"runtime error: ([a-z ]+)", err)
    if m:
        return "ubsan-" + "-".join(m.group(1).split()[:4])
    return "crash-rc%s" % rc


def run_batch(exe, cases):
    """Run cases through driver processes; returns a list parallel to cases of
    result dicts, {"crash": kind, "stderr": ..} or None (not executed: the driver
    was already killed CLASS_CRASHES times by inputs of the same class, or
    MAX_CRASHES times in this batch)."""
    res = [None] * len(cases)
    pending = list(range(len(cases)))
    by_class = {}
    total = 0
    while pending and total < MAX_CRASHES:
        idxs = [k for k in pending if by_class.get(len_class(cases[k]), 0) < CLASS_CRASHES]
        if not idxs:
            break
        rc, out, err = cbuild.run_driver(exe, "\n".join(case_line(cases[k]) for k in idxs) + "\n",
                                         timeout=1200, env=UBSAN_ENV)
        got = 0
        for ln in out.splitlines():
            try:
                r = json.loads(ln)
            except ValueError:
                break
            if "error" in r:
                raise tlc.MachineryError("drv_moballoc: %s" % r["error"])
            res[idxs[got]] = r
            got += 1
        if got == len(idxs):
            break
        if rc == 0:
            raise tlc.MachineryError("drv_moballoc stopped after %d of %d cases without a crash:\n%s"
                                     % (got, len(idxs), err[-1500:]))
        # the case after the last printed result killed the driver
        k = idxs[got]
        tail = err[-4000:]
        res[k] = dict(crash=mem_kind(rc, tail), rc=rc, stderr=tail)
        cl = len_class(cases[k])
        by_class[cl] = by_class.get(cl, 0) + 1
        total += 1
        pending = idxs[got + 1:]
    return res


def run_cases(exe, cases, workers=4):
    if not cases:
        return []
    n = max(1, min(workers, (len(cases) + 199) // 200))
    size = (len(cases) + n - 1) // n
    parts = [cases[k:k + size] for k in range(0, len(cases), size)]
    with ThreadPoolExecutor(max_workers=n) as ex:
        outs = list(ex.map(lambda p: run_batch(exe, p), parts))
    return [r for o in outs for r in o]


def record(c, r):
    return dict(e="dec", ca=c["ca"], len=c["len"], bitmap=c["bitmap"], si4=c["si4"], pre=c["pre"],
                rc=r["rc"], hopping=r["hopping"], hoppLen=r["hoppLen"], hoppMask=r["hoppMask"])


def alg_events(c, r):
    ev = [dict(e="call", ca=c["ca"], len=c["len"], bitmap=c["bitmap"], si4=c["si4"], pre=c["pre"], stale=STALE)]
    for s in r["steps"]:
        if s[0] == "s":
            ev.append(dict(e="s", j=s[1], arfcn=s[2]))
        elif s[0] == "h":
            ev.append(dict(e="h", i=s[1]))
        elif s[0] == "x":
            ev.append(dict(e="x", idx=s[1], j=s[2]))
        else:
            ev.append(dict(e="unknown-log-line"))
    ev.append(dict(e="ret", rc=r["rc"], hopping=r["hopping"], hoppLen=r["hoppLen"], hoppMask=r["hoppMask"]))
    return ev


def py_flagged(c):
    """Not an oracle: only counts non-trivial cases for the evidence file."""
    return sum(bin(o).count("1") for o in c["bitmap"]) if c["len"] <= 8 else 0


# ------------------------------------------------------------------ check
def handle_results(ctx, cases, results, what):
    """Memory verdicts; returns the (case, result) pairs that returned normally."""
    ok = []
    skipped = 0
    for c, r in zip(cases, results):
        ctx.count()
        if r is None:
            skipped += 1
            continue
        if "crash" in r:
            ctx.violation("C20/memory/%s/%s" % (r["crash"], len_class(c)),
                          "%s: decoder killed by the sanitizer (%s) on len=%d, |CA|=%d, bitmap=%s, si4=%d"
                          % (what, r["crash"], c["len"], len(c["ca"]), c["bitmap"][:10], c["si4"]),
                          dict(case=c, driver_line=case_line(c), stderr=r["stderr"]))
            continue
        for k in r.get("ubsan", []):
            kind = "ubsan-vla-bound" if "vla" in k else "ubsan-" + k
            ctx.violation("C20/memory/%s/%s" % (kind, len_class(c)),
                          "%s: UBSan report '%s' on len=%d, |CA|=%d (execution continued)"
                          % (what, k, c["len"], len(c["ca"])),
                          dict(case=c, driver_line=case_line(c), result=r))
        if py_flagged(c) and c["ca"]:
            ctx.distinct((tuple(c["ca"]), tuple(c["bitmap"]), c["si4"]))
        ok.append((c, r))
    if skipped:
        ctx.log("%s: %d cases not executed (their input class already killed the driver %d times)"
                % (what, skipped, CLASS_CRASHES))
        ctx.extra["cases_skipped_after_crashes"] = ctx.extra.get("cases_skipped_after_crashes", 0) + skipped
    return ok


def validate(ctx, label, traces, parallel=4):
    """TV of traces {id, ev, cases} (cases[k] = the input that produced ev[k]); the
    unvalidated remainder of a rejected trace is re-submitted."""
    nev = 0
    rounds = 0
    recheck = []
    while traces and rounds < 6:
        rounds += 1
        send = [dict(id=t["id"], cfg={}, ev=t["ev"]) for t in traces]
        res, stats = tlc.validate_traces("MobAllocTrace.tla", "MobAllocTrace.cfg", send, scratch=ctx.scratch,
                                         chunk="balance", parallel=parallel, timeout=3000)
        ctx.add_tv("TV %s%s" % (label, "" if rounds == 1 else " (remainder %d)" % rounds), stats, len(traces))
        byid = {t["id"]: t for t in traces}
        nxt = []
        for v in res:
            tr = byid[v["id"]]
            nev += v["reached"]
            if v["reached"] == v["n"]:
                continue
            tag = (v["tag"] or "no-action-enabled").replace("C20.", "")
            bad = tr["ev"][v["reached"]]
            c = tr["cases"][v["reached"]]
            if tr["ev"][0]["e"] != "dec" and (tag in SHAPE_TAGS or tag.startswith("alg.expected-")):
                # The step-level binding reads the function's own log lines.  A deviation in the
                # sequence / arguments of those lines alone is not a verdict: it counts only if the
                # result of that very execution is wrong as well (judged as a result record below).
                k0 = v["reached"]
                while k0 > 0 and tr["ev"][k0]["e"] != "call":
                    k0 -= 1
                k1 = v["reached"]
                while k1 < len(tr["ev"]) and tr["ev"][k1]["e"] != "ret":
                    k1 += 1
                if tr["ev"][k0]["e"] == "call" and k1 < len(tr["ev"]):
                    ce, re_ = tr["ev"][k0], tr["ev"][k1]
                    rec = dict(e="dec", ca=ce["ca"], len=ce["len"], bitmap=ce["bitmap"], si4=ce["si4"], pre=ce["pre"],
                               rc=re_["rc"], hopping=re_["hopping"], hoppLen=re_["hoppLen"], hoppMask=re_["hoppMask"])
                    recheck.append((rec, c, tag, bad, v))
                    k = k1 + 1
                    if k < len(tr["ev"]):
                        nxt.append(dict(id=tr["id"] + "+", ev=tr["ev"][k:], cases=tr["cases"][k:]))
                    continue
            ctx.violation("C20/%s/%s" % (tag, len_class(c)),
                          "trace %s rejected at event %d/%d (%s): len=%d |CA|=%d bitmap=%s si4=%d -> %s"
                          % (v["id"], v["reached"] + 1, v["n"], tag, c["len"], len(c["ca"]), c["bitmap"][:10],
                             c["si4"], {k: bad[k] for k in bad if k not in ("ca", "bitmap", "pre")}),
                          dict(case=c, driver_line=case_line(c), event=bad, verdict=v))
            k = v["reached"] + 1
            if tr["ev"][0]["e"] != "dec":                 # step-level trace: skip to the next call
                while k < len(tr["ev"]) and tr["ev"][k]["e"] != "call":
                    k += 1
            if k < len(tr["ev"]):
                nxt.append(dict(id=tr["id"] + "+", ev=tr["ev"][k:], cases=tr["cases"][k:]))
        traces = nxt
    if recheck:
        send = [dict(id="rc%d" % i, cfg={}, ev=[x[0]]) for i, x in enumerate(recheck)]
        res, stats = tlc.validate_traces("MobAllocTrace.tla", "MobAllocTrace.cfg", send, scratch=ctx.scratch,
                                         chunk="balance", parallel=parallel, timeout=3000)
        ctx.add_tv("TV %s (results of executions whose log lines deviate)" % label, stats, len(send))
        byid = {"rc%d" % i: x for i, x in enumerate(recheck)}
        for v2 in res:
            rec, c, tag, bad, v = byid[v2["id"]]
            if v2["reached"] == v2["n"]:
                ctx.extra["executions_with_deviating_log_lines_but_correct_result"] = \
                    ctx.extra.get("executions_with_deviating_log_lines_but_correct_result", 0) + 1
                continue
            ctx.violation("C20/%s/%s" % (tag, len_class(c)),
                          "execution rejected at step level (%s) and its result is wrong as well (%s): len=%d |CA|=%d bitmap=%s si4=%d -> %s"
                          % (tag, v2["tag"], c["len"], len(c["ca"]), c["bitmap"][:10], c["si4"],
                             {k: bad[k] for k in bad if k not in ("ca", "bitmap", "pre")}),
                          dict(case=c, driver_line=case_line(c), event=bad, verdict=v, result_verdict=v2))
    return nev


def selftest(ctx, traces):
    """The trace spec must reject a corrupted output at exactly that record and
    an execution with a dropped step at exactly that step."""
    import copy
    jobs = []
    for t in traces:
        if t["ev"][0]["e"] == "dec":
            for k, e in enumerate(t["ev"]):
                if e["rc"] == 0 and e["hoppLen"] >= 2:
                    c = copy.deepcopy(t["ev"][:k + 2])
                    c[k]["hopping"][0], c[k]["hopping"][1] = c[k]["hopping"][1], c[k]["hopping"][0]
                    jobs.append((dict(id="st-swap", cfg={}, ev=c), k, "C20.decode.order"))
                    c = copy.deepcopy(t["ev"][:k + 2])
                    c[k]["hopping"] = c[k]["hopping"][:-1]
                    c[k]["hoppLen"] -= 1
                    jobs.append((dict(id="st-short", cfg={}, ev=c), k, "C20.decode.set"))
                    c = copy.deepcopy(t["ev"][:k + 2])
                    c[k]["rc"] = -22
                    jobs.append((dict(id="st-rc", cfg={}, ev=c), k, "C20.valid-rejected"))
                    break
            if jobs:
                break
    for t in traces:
        if t["ev"][0]["e"] == "call" and not any(e["e"] == "unknown-log-line" for e in t["ev"]):
            ks = [k for k, e in enumerate(t["ev"]) if e["e"] == "s"]
            if ks:
                k = ks[len(ks) // 2]
                jobs.append((dict(id="st-drop", cfg={}, ev=t["ev"][:k] + t["ev"][k + 1:]), k, "C20.alg."))
                break
    if len(jobs) == 3 and not any(j[0]["id"] == "st-drop" for j in jobs):
        # the decoder's own log lines (the step-level observation) are not what the binding knows:
        # the step-level conformance is unavailable on this tree, the result-level one is complete
        ctx.extra["step_level_binding"] = "unavailable (the function's log lines changed); results are judged"
    elif len(jobs) < 4:
        raise tlc.MachineryError("self-test: no suitable accepted traces to corrupt")
    res, stats = tlc.validate_traces("MobAllocTrace.tla", "MobAllocTrace.cfg", [j[0] for j in jobs], scratch=ctx.scratch)
    ctx.jobs.append(dict(job="self-test: corrupted traces must be rejected at the corrupted event", **stats))
    verdict = {v["id"]: v for v in res}           # verdicts are not guaranteed to come in input order
    for tr, k, tag in jobs:
        v = verdict[tr["id"]]
        if v["reached"] != k or not v["tag"].startswith(tag):
            raise tlc.MachineryError("self-test %s: expected rejection at event %d with %s, got %s" % (tr["id"], k + 1, tag, v))
    ctx.extra["selftest_corruptions_rejected"] = len(jobs)


def run(ctx):
    exe = build(ctx)
    si_pool = ThreadPoolExecutor(max_workers=1)          # SI1/SI4 callers stage runs beside the others
    si_fut = si_pool.submit(lambda: si_compute(os.path.join(ctx.scratch, "si"), ctx.seed, ctx.thorough, build_si(ctx)))
    ctx.trusted += ["drv_moballoc.c (allocates exact-size buffers, prints outputs and the function's log lines)",
                    "cbuild.slice_function/slice_lines (text slicing of gsm48_decode_mobile_alloc, FREQ_TYPE_*, prototype)",
                    "LOGP shim macro -> vf_logp()", "in-repo libosmocore gsm48_ie.h (struct gsm_sysinfo_freq)",
                    "clang ASan/UBSan", "TLC + CommunityModules"]
    ctx.assumptions += ["buffer sizes as passed by the real callers: freq[1024], hopping[64] (sysinfo.h, gsm48_rr.c)",
                        "outputs after a rejection (rc != 0) and the HOPP flags for si4 = 0 are don't-cares of the "
                        "result records (the step-level traces compare the flags with the algorithm)",
                        "cell allocations larger than 64 are driven for memory safety and compared with Decode "
                        "(first 8*len entries of the ordered list), although outside the quantifier"]
    # ---- MC, sensitivity run and GEN enumeration run concurrently ----------
    genf = os.path.join(ctx.scratch, "gen.json")
    with ThreadPoolExecutor(max_workers=3) as ex:
        f_mc = ex.submit(tlc.run, "MobileAlloc.tla", "MC_MobileAlloc.cfg", workers=4, timeout=1800, coverage=ctx.thorough)
        f_tree = ex.submit(tlc.run, "MobileAlloc.tla", "MC_MobileAllocTree.cfg", workers=2, timeout=1800)
        f_gen = ex.submit(tlc.run, "MobAllocGen.tla", "MobAllocGen.cfg", workers=1, env=dict(OUT_FILE=genf))
        r, r2, rg = f_mc.result(), f_tree.result(), f_gen.result()
    ctx.add_tlc("MC MC_MobileAlloc.cfg (ARFCN 0..5, any CA, bitmaps of 0..2 three-bit octets + over-long)", r)
    ctx.log("MC MC_MobileAlloc", r.summary())
    if not r.ok:
        tr = r.violation.get("trace", "")
        disc = "len0" if re.search(r"ma = <<\s*>>", tr) else "len1plus"
        ctx.violation("C20/spec/%s/%s" % (r.violation["name"], disc),
                      "TLC: %s violated by the algorithm in MC_MobileAlloc.cfg" % r.violation["name"],
                      dict(trace=tr[-6000:], cmd=r.cmd))
    elif ctx.thorough:
        for act in ("Entry", "Gen", "GenWrite", "Hop", "HopSet"):
            if act in r.coverage and r.coverage[act][1] == 0:
                raise tlc.MachineryError("MC_MobileAlloc: action %s never taken (vacuous model)" % act)
    ctx.jobs.append(dict(job="MC MC_MobileAllocTree.cfg (sensitivity: without the len = 0 return the "
                             "transcription must violate FWriteInBounds)", **r2.summary()))
    if r2.ok or r2.violation["name"] != "FWriteInBounds":
        raise tlc.MachineryError("sensitivity run MC_MobileAllocTree.cfg: expected FWriteInBounds to be violated, got %s"
                                 % (r2.violation,))
    # ---- GEN: TLC-enumerated boundary universe ---------------------------
    ctx.add_tlc("GEN MobAllocGen.cfg", rg)
    if not rg.ok:
        raise tlc.MachineryError("MobAllocGen failed: %s" % rg.violation)
    with open(genf) as f:
        gen = json.load(f)
    gcases = [dict(ca=g["ca"], len=len(g["bitmap"]), bitmap=g["bitmap"], si4=1, pre=[g["ca"][0]] if g["ca"] else [7],
                   steps=0) for g in gen]
    gres = run_cases(exe, gcases)
    ctx.extra["spec_cases_replayed"] = len(gcases)
    for (c, rr), g in zip(zip(gcases, gres), gen):
        if rr is None or "crash" in rr:
            continue
        if g["ok"] != (rr["rc"] == 0):
            ctx.violation("C20/gen.%s/%s" % ("too-long-accepted" if rr["rc"] == 0 else "valid-rejected", len_class(c)),
                          "TLC case ca=%s bitmap=%s: spec ok=%s, code rc=%d" % (c["ca"], c["bitmap"], g["ok"], rr["rc"]),
                          dict(case=c, driver_line=case_line(c), expected=g, result=rr))
        elif g["ok"] and (rr["hopping"] != g["hop"] or sorted(rr["hoppMask"]) != sorted(g["hop"])):
            ctx.violation("C20/gen.decode/%s" % len_class(c),
                          "TLC case ca=%s bitmap=%s: Decode = %s, code hopping = %s, HOPP flags = %s"
                          % (c["ca"], c["bitmap"], g["hop"], rr["hopping"], rr["hoppMask"]),
                          dict(case=c, driver_line=case_line(c), expected=g, result=rr))
    handle_results(ctx, gcases, gres, "GEN")
    ctx.log("GEN: %d TLC-enumerated cases replayed" % len(gcases))

    # ---- TV ------------------------------------------------------------
    n_rounds = ctx.pick(1, 10)
    n_rand = ctx.pick(1000, 19000)
    n_alg = ctx.pick(150, 1200)
    total_ev = 0
    for rnd in range(n_rounds):
        cases = (grid_cases(ctx.rng) if rnd == 0 else []) + [rand_case(ctx.rng) for _ in range(n_rand)]
        acases = [rand_case(ctx.rng, steps=1) for _ in range(n_alg)]
        if rnd == 0:
            for length in range(0, 10):                # every length also at the step level
                for size, with0 in ((0, 0), (1, 1), (9, 0), (64, 1), (70, 1)):
                    ca = make_ca(ctx.rng, size, with0)
                    acases.append(dict(ca=ca, len=length, bitmap=make_bitmap(ctx.rng, length, "edge", len(ca)),
                                       si4=length & 1, pre=make_pre(ctx.rng, ca), steps=1))
        res = run_cases(exe, cases + acases)
        ok = handle_results(ctx, cases, res[:len(cases)], "TV")
        aok = handle_results(ctx, acases, res[len(cases):], "TV/steps")
        traces = []
        per = 100
        for k in range(0, len(ok), per):
            part = ok[k:k + per]
            traces.append(dict(id="r%d-%d" % (rnd, k // per), ev=[record(c, r) for c, r in part],
                               cases=[c for c, _ in part]))
        per = 12
        for k in range(0, len(aok), per):
            part = aok[k:k + per]
            ev, idx = [], []
            for c, r in part:
                e = alg_events(c, r)
                idx += [c] * len(e)
                ev += e
            traces.append(dict(id="a%d-%d" % (rnd, k // per), ev=ev, cases=idx))

        nviol = len(ctx.violations)
        total_ev += validate(ctx, "MobAllocTrace round %d" % rnd, traces)
        if rnd == 0 and not ctx.violations:          # (on a tree that already shows violations - e.g. inputs
            selftest(ctx, traces)                    # that killed the driver - there may be nothing suitable to corrupt)
        if rnd == 0:
            for c, r in ok[:2] + aok[:1]:
                ctx.sample(dict(case=c, result={k: r[k] for k in ("rc", "hoppLen", "hopping", "hoppMask")}))
        ctx.log("round %d: %d result records + %d step-level executions validated" % (rnd, len(ok), len(aok)))
        if len(ctx.violations) > 40:
            break
    ctx.extra["events_validated"] = total_ev
    ctx.rule = ("cases = TLC-enumerated boundary universe (all subsets of 6 ARFCNs x 292 bitmaps) + deterministic grid "
                "(len 0..9 x boundary CA sizes x ARFCN 0 in/out x bitmap styles x si4) + seeded random cases (CA size "
                "0..64 and >64, len 0..9 and a few longer, bitmaps random/all-ones/single-bit/beyond-CA/edge); executed by "
                "the sliced real function under ASan+UBSan; non-trivial = non-empty CA and at least one bit set in an "
                "accepted bitmap; distinct by (CA, bitmap, si4)")
    si_fold(ctx, si_fut.result())
    setfh_stage(ctx)
    si_pool.shutdown()


# ====================================================================== SI1 / SI4 callers
"""Stage `si` - the callers of gsm48_decode_mobile_alloc() inside sysinfo.c.

MC : spec/SysinfoMA.tla (MC_SysinfoMA.cfg; thorough also MC_SysinfoMAFull.cfg): property view
     (cell allocation of the last SI1, bitmap of the last SI4 that carried a usable one, hopping
     list) + the mechanism of sysinfo.c (s->si4, stored SI4 re-decoded from SI1) over all
     sequences; MC_SysinfoMABad.cfg (SI1 does not re-apply the stored SI4) must violate HopIsDecode.
TV : harness/c/drv_sysinfo_ma.c runs the real gsm48_decode_sysinfo1/4 + decoder + frequency-list
     decoder on a real struct gsm48_sysinfo, messages in exactly sized heap buffers; every op is
     an event of spec/SysinfoMATrace.tla, which parses the SI4 octets itself and takes the cell
     allocation from what the code reports after SI1.
"""
SI_FIXED = 13
SI_FINDING_995 = "C20/si4/memory/ie-header-truncated"


class _SiRng:
    """Own generator: the random stream of the existing stages stays what it was."""
    def __init__(self, seed):
        import random
        self.r = random.Random((seed * 2654435761 + 20) & 0xffffffff)


# ---- encoders (not trusted for the verdict: the trace spec reads the code's SERV set and parses SI4 itself)
def ccd_bitmap0(arfcns):
    cd = [0] * 16
    for a in arfcns:
        assert 1 <= a <= 124
        cd[15 - ((a - 1) >> 3)] |= 1 << ((a - 1) & 7)
    return cd


def ccd_varbitmap(orig, rels):
    cd = [0] * 16
    cd[0] = 0x8e | ((orig >> 9) & 1)
    cd[1] = (orig >> 1) & 0xff
    cd[2] = (orig & 1) << 7
    for i in rels:
        assert 1 <= i <= 111
        cd[2 + (i >> 3)] |= 0x80 >> (i & 7)
    return cd


def si_make_ccd(rng, size=None):
    """A Cell Channel Description (16 octets) and its format name."""
    r = rng.random()
    if size is None:
        q = rng.random()
        size = (rng.choice([1, 2, 7, 8, 9, 16, 17, 33, 63, 64]) if q < 0.35 else
                rng.choice([65, 66, 80, 100, 112]) if q < 0.45 else rng.randint(1, 64))
    if r < 0.35:
        n = min(size, 124)
        if rng.random() < 0.3:
            a = rng.randint(1, 124 - n + 1)
            return ccd_bitmap0(range(a, a + n)), "bitmap0"
        return ccd_bitmap0(rng.sample(range(1, 125), n)), "bitmap0"
    if r < 0.80:
        n = min(size, 112) - 1
        q = rng.random()
        if q < 0.35:
            orig = rng.choice([0, 0, 1023, 1022, 1000, 960, 913, 912])      # ARFCN 0 inside / wrap over 1023 -> 0
        elif q < 0.5:
            orig = rng.randint(900, 1023)
        else:
            orig = rng.randint(0, 1023)
        rels = rng.sample(range(1, 112), n)
        if orig and rng.random() < 0.4 and 1 <= 1024 - orig <= 111 and (1024 - orig) not in rels and rels:
            rels[0] = 1024 - orig                                          # make ARFCN 0 a member
        return ccd_varbitmap(orig, rels), "variable"
    fmt = rng.choice([(0x80, 0x08, "range1024"), (0x88, 0x00, "range512"), (0x8a, 0x00, "range256"),
                      (0x8c, 0x00, "range128")])
    cd = [rng.randint(0, 255) if rng.random() < 0.8 else 0 for _ in range(16)]
    if fmt[2] == "range1024":
        cd[0] = 0x80 | (cd[0] & 0x37)                                      # 10..0XX. ; bit 2 = F0
    else:
        cd[0] = fmt[0] | (cd[0] & 0x31)
    return cd, fmt[2]


def si1_msg(rng, cd):
    m = [0x55, 0x06, 0x19] + list(cd) + [rng.randint(0, 255) for _ in range(3)]
    if rng.random() < 0.7:
        m.append(rng.choice([0x2b, 0x2b, 0xab, 0x00, 0xff]))               # SI1 rest octet
    return m


def si4_fixed(rng):
    return [0x31, 0x06, 0x1c] + [rng.randint(0, 255) for _ in range(10)]


def si4_cd(rng, hop=None):
    if hop is None:
        hop = rng.random() < 0.6
    o3 = (rng.randint(0, 7) << 5) | (0x10 if hop else 0) | rng.randint(0, 15 if hop else 3)
    return [0x64, rng.choice([0x20, 0x28, 0x40 | rng.randint(0, 7)]) | rng.randint(0, 7), o3, rng.randint(0, 255)]


def si4_msg(rng, cd, ie, pad=None):
    """cd: None | 4 octets; ie: None | (announced length, bitmap octets present).  pad: None (message ends
    there) or total length to pad to with rest octets (only used when the IE is complete or absent)."""
    m = si4_fixed(rng) + (list(cd) if cd else [])
    if ie is not None:
        m += [0x72, ie[0] & 0xff] + list(ie[1])
    if pad is not None and len(m) < pad:
        first = rng.choice([0x2b, 0x2b, 0x2b, 0xab, 0x00, 0xff, 0x64, 0x72]) if ie is not None else \
            rng.choice([0x2b, 0x2b, 0xab, 0x00, 0xff, 0x2b])
        m += [first] + [0x2b] * (pad - len(m) - 1)
    return m


def si_parse_kind(m):
    """Mirror of SysinfoMATrace!ParseSI4 - used ONLY to route inputs into batches and to name
    discriminators, never for a verdict."""
    n = len(m)
    p = SI_FIXED
    if n > p and m[p] == 0x64:
        if n < p + 4:
            return "trunc-cd", None
        p += 4
    if not (n > p and m[p] == 0x72):
        return "noie", None
    if n < p + 2:
        return "trunc-hdr", None
    ln = m[p + 1]
    if n < p + 2 + ln:
        return "trunc-ie", None
    return ("overlong" if ln > 8 else "ma"), m[p + 2:p + 2 + ln]


def si_rand_ie(rng, nca=None, length=None):
    if length is None:
        length = rng.choice([0, 1, 1, 2, 2, 3, 4, 5, 6, 7, 8, 8])
    nca = nca if nca is not None else rng.randint(1, 64)
    return (length, make_bitmap(rng, length, rng.choice(STYLES), nca))


def si_good_si4(rng, nca=None, length=None, cd=None, full=None):
    """A complete SI4 with a usable Mobile Allocation IE."""
    if cd is None:
        cd = si4_cd(rng) if rng.random() < 0.5 else None
    if cd is False:
        cd = None
    maxlen = 23 - SI_FIXED - 2 - (4 if cd else 0)
    if length is None:
        length = rng.randint(0, maxlen) if rng.random() < 0.7 else maxlen
    if length > maxlen:                      # does not fit into 23 octets with a channel description
        cd = None
    ie = si_rand_ie(rng, nca, length)
    if full is None:
        full = rng.random() < 0.6
    return si4_msg(rng, cd, ie, 23 if full else None)


def si_noie_si4(rng):
    cd = si4_cd(rng) if rng.random() < 0.5 else None
    return si4_msg(rng, cd, None, rng.choice([None, 23, 23]))


def si_refused_si4(rng, full=True):
    """IE announcing more octets than the message carries."""
    cd = si4_cd(rng) if rng.random() < 0.5 else None
    room = 23 - SI_FIXED - 2 - (4 if cd else 0)
    if full:
        have = room
        ann = rng.randint(room + 1, min(255, room + rng.choice([1, 2, 3, 9, 200])))
    else:
        have = rng.randint(0, room - 1)
        ann = have + rng.choice([1, 1, 2, 2, 3, 5])
    return si4_msg(rng, cd, (ann, [rng.randint(0, 255) for _ in range(have)]), None)


def si_cells(rng, thorough):
    """Cells: lists of ('SI1'|'SI4', octets) with an order label."""
    cells = []

    def ca_pair():
        a, fa = si_make_ccd(rng)
        b, fb = si_make_ccd(rng)
        if rng.random() < 0.25:                       # same format, one channel more / fewer
            b = list(a)
            if fa == "bitmap0":
                b[15 - rng.randint(0, 14)] ^= 1 << rng.randint(0, 7)
            elif fa == "variable":
                b[3 + rng.randint(0, 12)] ^= 1 << rng.randint(0, 7)
            else:
                b[rng.randint(2, 15)] ^= 1 << rng.randint(0, 7)
        return a, b

    def add(order, ops):
        cells.append(dict(order=order, ops=ops))

    n = 200 if thorough else 24
    for _ in range(n):
        a, b = ca_pair()
        g = lambda **kw: si_good_si4(rng, **kw)
        add("SI1-SI4", [("SI1", si1_msg(rng, a)), ("SI4", g())])
        add("SI4-SI1", [("SI4", g()), ("SI1", si1_msg(rng, a))])
        add("SI1-SI4-SI1'", [("SI1", si1_msg(rng, a)), ("SI4", g()), ("SI1", si1_msg(rng, b))])
        add("SI1-SI4-SI1'", [("SI1", si1_msg(rng, a)), ("SI4", g(length=rng.choice([1, 2, 4, 8]), cd=False)),
                             ("SI1", si1_msg(rng, b)), ("SI1", si1_msg(rng, a)), ("SI1", si1_msg(rng, a))])
        add("SI4-SI4'", [("SI4", g()), ("SI4", g()), ("SI1", si1_msg(rng, a))])
        add("SI1-SI4-SI4'", [("SI1", si1_msg(rng, a)), ("SI4", g()), ("SI4", g())])
        add("SI1-SI4-SI4'(no IE)-SI1'", [("SI1", si1_msg(rng, a)), ("SI4", g()), ("SI4", si_noie_si4(rng)),
                                         ("SI1", si1_msg(rng, b))])
        add("SI1-SI4-SI4'(refused)-SI1'", [("SI1", si1_msg(rng, a)), ("SI4", g()),
                                           ("SI4", si_refused_si4(rng, full=rng.random() < 0.7)),
                                           ("SI1", si1_msg(rng, b))])
        add("SI4(refused)-SI1-SI4", [("SI4", si_refused_si4(rng, full=rng.random() < 0.5)), ("SI1", si1_msg(rng, a)),
                                     ("SI4", g())])
        add("SI1-SI4-SI4'(no IE)-SI4''-SI1'", [("SI1", si1_msg(rng, a)), ("SI4", g()), ("SI4", si_noie_si4(rng)),
                                               ("SI4", g()), ("SI1", si1_msg(rng, b))])
    # every Mobile Allocation length 0..9 (9: announced only, cannot fit into 23 octets), with / without
    # channel description (h0 / h1), before and after SI1
    for length in range(0, 10):
        for cdk in (None, False, True):
            a, b = ca_pair()
            cd = None if cdk is None else si4_cd(rng, hop=cdk)
            room = 23 - SI_FIXED - 2 - (4 if cd else 0)
            have = min(length, room)
            ie = (length, make_bitmap(rng, have, rng.choice(["ones", "random", "edge"]), 8 * have))
            m = si4_msg(rng, cd, ie, 23 if have == length else None)
            add("len%d" % length, [("SI1", si1_msg(rng, a)), ("SI4", m), ("SI1", si1_msg(rng, b))])
            add("len%d" % length, [("SI4", m), ("SI1", si1_msg(rng, a))])
    # all truncation points: every prefix from the fixed part to the full message
    for k in range(30 if thorough else 4):
        a, b = ca_pair()
        full = si_good_si4(rng, length=rng.choice([1, 2, 3, 4]) if k % 2 else rng.choice([5, 6, 7, 8]),
                           cd=None if k % 2 else False, full=True)
        for n_ in range(SI_FIXED, len(full) + 1):
            pre = full[:n_]
            r = k + n_
            if r % 3 == 0:
                add("prefix", [("SI1", si1_msg(rng, a)), ("SI4", pre)])
            elif r % 3 == 1:
                add("prefix", [("SI1", si1_msg(rng, a)), ("SI4", si_good_si4(rng)), ("SI4", pre)])
            else:
                add("prefix", [("SI4", pre), ("SI1", si1_msg(rng, a))])
    # over-long IE that fits: only possible in messages longer than any BCCH block (24+ octets)
    for length in ((9, 10, 12, 16, 40) if thorough else (9, 12)):
        a, _ = ca_pair()
        m = si4_msg(rng, None, (length, [rng.randint(0, 255) for _ in range(length)]), None)
        add("overlong", [("SI1", si1_msg(rng, a)), ("SI4", si_good_si4(rng)), ("SI4", m)])
        add("overlong", [("SI4", m), ("SI1", si1_msg(rng, a))])
    # random mixes
    for _ in range(2500 if thorough else 100):
        a, b = ca_pair()
        ops = []
        for _k in range(rng.randint(2, 7)):
            q = rng.random()
            if q < 0.4:
                ops.append(("SI1", si1_msg(rng, rng.choice([a, a, b]))))
            elif q < 0.8:
                ops.append(("SI4", si_good_si4(rng)))
            elif q < 0.9:
                ops.append(("SI4", si_noie_si4(rng)))
            else:
                ops.append(("SI4", si_refused_si4(rng, full=rng.random() < 0.6)))
        add("random", ops)
    return cells


def si_hdr_cells(rng, thorough):
    """The input class of sysinfo.c:995: the message ends right after the IEI 0x72."""
    cells = []
    for k in range(8 if thorough else 4):
        a, _ = si_make_ccd(rng)
        cd = si4_cd(rng) if k & 1 else None
        m = si4_msg(rng, cd, None, None) + [0x72]
        if k & 2:
            cells.append(dict(order="hdr", ops=[("SI1", si1_msg(rng, a)), ("SI4", si_good_si4(rng)), ("SI4", m)]))
        else:
            cells.append(dict(order="hdr", ops=[("SI4", m), ("SI1", si1_msg(rng, a))]))
    return cells


def si_line(op):
    return "%s %s" % (op[0], bytes(op[1]).hex())


def si_run_cells(exe, cells, max_crashes=MAX_CRASHES, class_crashes=CLASS_CRASHES):
    """Run cells (each: N + its ops) through driver processes.  Fills cell['ev'] (events) or
    cell['crash'] = dict(kind, op, stderr); cells not executed because the crash budget of their
    class ran out keep neither."""
    pending = list(range(len(cells)))
    total = 0
    by_class = {}

    def cls(c):
        return "+".join(sorted(set(si_parse_kind(o[1])[0] for o in c["ops"] if o[0] == "SI4")))

    while pending and total < max_crashes:
        idxs = [k for k in pending if by_class.get(cls(cells[k]), 0) < class_crashes]
        if not idxs:
            break
        script = []
        owner = []
        for k in idxs:
            script.append("N")
            owner.append((k, -1))
            for j, op in enumerate(cells[k]["ops"]):
                script.append(si_line(op))
                owner.append((k, j))
        rc, out, err = cbuild.run_driver(exe, "\n".join(script) + "\n", timeout=1200)
        lines = out.splitlines()
        got = 0
        for ln in lines:
            try:
                r = json.loads(ln)
            except ValueError:
                break
            if "error" in r:
                raise tlc.MachineryError("drv_sysinfo_ma: %s" % r["error"])
            k, j = owner[got]
            if j < 0:
                cells[k]["ev"] = [dict(e="new")]
            else:
                ev = dict(e=r["e"], rc=r["rc"], serv=r["serv"], hoppMask=r["hoppMask"], hoppLen=r["hoppLen"],
                          hopping=r["hopping"])
                if r["e"] == "si4":
                    ev["msg"] = list(cells[k]["ops"][j][1])
                    ev["len"] = r["len"]
                cells[k]["ev"].append(ev)
                cells[k]["flags"] = (r["si1"], r["si4"])
            got += 1
        if got == len(owner):
            break
        if rc == 0:
            raise tlc.MachineryError("drv_sysinfo_ma stopped after %d of %d ops without a crash:\n%s"
                                     % (got, len(owner), err[-1500:]))
        k, j = owner[got]
        tail = err[-4000:]
        cells[k].pop("ev", None)
        cells[k]["crash"] = dict(kind=mem_kind(rc, tail), op=max(j, 0), rc=rc, stderr=tail)
        by_class[cls(cells[k])] = by_class.get(cls(cells[k]), 0) + 1
        total += 1
        pending = idxs[idxs.index(k) + 1:]
    return cells


def si_shape(cell, upto):
    """Discriminator: what the ops of the cell were, up to and including op `upto`."""
    names = []
    for op in cell["ops"][:upto + 1]:
        names.append("si1" if op[0] == "SI1" else si_parse_kind(op[1])[0])
    return "-".join(names[-3:])


def si_validate(scratch, traces, out, parallel):
    """TV of traces {id, ev, where} (where[k] = (cell, op index) of event k); the remainder of a
    rejected trace is re-submitted from the next cell on."""
    rounds = 0
    nev = 0
    while traces and rounds < 6:
        rounds += 1
        send = [dict(id=t["id"], cfg={}, ev=t["ev"]) for t in traces]
        res, stats = tlc.validate_traces("SysinfoMATrace.tla", "SysinfoMATrace.cfg", send, scratch=scratch,
                                         chunk="balance", parallel=parallel, timeout=3000)
        out["tv"].append(("TV SysinfoMATrace%s" % ("" if rounds == 1 else " (remainder %d)" % rounds), stats, len(traces)))
        byid = {t["id"]: t for t in traces}
        nxt = []
        for v in res:
            tr = byid[v["id"]]
            nev += v["reached"]
            if v["reached"] == v["n"]:
                continue
            tag = (v["tag"] or "no-action-enabled").replace("C20.", "")
            bad = tr["ev"][v["reached"]]
            cell, j = tr["where"][v["reached"]]
            prev = tr["ev"][v["reached"] - 1] if v["reached"] else {}
            out["violations"].append((
                "C20/%s/%s" % (tag, si_shape(cell, j)),
                "SI1/SI4 sequence (%s) rejected at op %d (%s): rc=%s serv=%s.. hopp_len=%s hopping=%s HOPP marks=%s "
                "[list before: %s]"
                % (cell["order"], j + 1, tag, bad.get("rc"), str(bad.get("serv", []))[:60], bad.get("hoppLen"),
                   str(bad.get("hopping", []))[:80], str(bad.get("hoppMask", []))[:60], str(prev.get("hopping"))[:60]),
                dict(order=cell["order"], driver_script=["N"] + [si_line(o) for o in cell["ops"]], failing_op=j + 1,
                     event=bad, previous_event=prev, verdict=v)))
            k = v["reached"] + 1
            while k < len(tr["ev"]) and tr["ev"][k]["e"] != "new":
                k += 1
            if k < len(tr["ev"]):
                nxt.append(dict(id=tr["id"] + "+", ev=tr["ev"][k:], where=tr["where"][k:]))
        traces = nxt
    return nev


def si_selftest(scratch, traces, out):
    """Binding self-test: corrupted observations must be rejected at that event with the expected tag."""
    import copy
    jobs = []
    want = {"swap": None, "outside": None, "rc": None, "stale": None}
    for t in traces:
        ev = t["ev"]
        for k, e in enumerate(ev):
            if e["e"] == "new":
                continue
            kind = si_parse_kind(e["msg"])[0] if e["e"] == "si4" else "si1"
            after = "si4" if e["e"] == "si4" else "si1"
            if want["swap"] is None and kind in ("ma", "si1") and e["hoppLen"] >= 2 and e["hopping"][0] != e["hopping"][1]:
                c = copy.deepcopy(ev[:k + 2])
                c[k]["hopping"][0], c[k]["hopping"][1] = c[k]["hopping"][1], c[k]["hopping"][0]
                want["swap"] = (dict(id="st-swap", cfg={}, ev=c), k, "C20.si.hopping-after-" + after)
            if want["outside"] is None and kind == "ma" and e["hoppLen"] >= 1 and e["serv"]:
                out_a = next(a for a in range(1, 1024) if a not in e["serv"])
                c = copy.deepcopy(ev[:k + 2])
                c[k]["hopping"][-1] = out_a
                want["outside"] = (dict(id="st-outside", cfg={}, ev=c), k, "C20.si.outside-cell-allocation")
            if want["rc"] is None and kind == "trunc-ie" and e["rc"] < 0:
                c = copy.deepcopy(ev[:k + 2])
                c[k]["rc"] = 0
                want["rc"] = (dict(id="st-rc", cfg={}, ev=c), k, "C20.si.truncated-ie-refused")
            if (want["stale"] is None and kind == "si1" and k >= 2 and ev[k - 1]["e"] == "si4" and ev[k - 2]["e"] == "si1"
                    and si_parse_kind(ev[k - 1]["msg"])[0] == "ma" and e["hopping"] != ev[k - 1]["hopping"]):
                c = copy.deepcopy(ev[:k + 2])             # what change 1 looks like: list and marks of the old CA kept
                c[k]["hopping"] = list(ev[k - 1]["hopping"])
                c[k]["hoppLen"] = ev[k - 1]["hoppLen"]
                c[k]["hoppMask"] = list(ev[k - 1]["hoppMask"])
                want["stale"] = (dict(id="st-stale", cfg={}, ev=c), k, "C20.si.")
    jobs = [w for w in want.values() if w is not None]
    if len(jobs) < 4:
        raise tlc.MachineryError("si self-test: no suitable accepted traces to corrupt (%s)"
                                 % [k for k, w in want.items() if w is None])
    res, stats = tlc.validate_traces("SysinfoMATrace.tla", "SysinfoMATrace.cfg", [j[0] for j in jobs], scratch=scratch)
    out["jobs"].append(dict(job="si self-test: corrupted observations must be rejected at the corrupted event", **stats))
    verdict = {v["id"]: v for v in res}
    for tr, k, tag in jobs:
        v = verdict[tr["id"]]
        if v["reached"] != k or not v["tag"].startswith(tag):
            raise tlc.MachineryError("si self-test %s: expected rejection at event %d with %s, got %s" % (tr["id"], k + 1, tag, v))
    out["extra"]["si_selftest_corruptions_rejected"] = len(jobs)


def setfh_stage(ctx):
    """The downstream consumer named by the property's anchors: trxcon composes CMD SETFH from the
    decoded hopping list (trx_if_cmd_setfh).  The command must carry exactly the channels of the
    list, in order, or be refused as a whole (TrxconTrace: SetfhText / SetfhFits)."""
    import sys
    sys.path.insert(0, os.path.join(os.path.dirname(os.path.dirname(os.path.dirname(os.path.abspath(__file__)))), "harness", "py"))
    import trxcon_drv as T
    exe = T.build(ctx)
    rng = ctx.rng
    traces = []
    bands = [list(range(1, 125)), list(range(512, 886)), list(range(975, 1024)) + [0], list(range(128, 252)),
             [0x8000 | a for a in range(512, 811)]]
    for k in range(ctx.pick(40, 800)):
        band = rng.choice(bands)
        n = rng.choice([1, 2, 8, 33, 60, 61, 62, 63, 64, 64])
        ma = rng.sample(band, min(n, len(band)))
        if rng.random() < 0.6:
            ma.sort()
        arg = (rng.choice([0, 1, 9, 10, 63]), rng.choice([0, 9, 10, 63])) + tuple(ma)
        tc = T.Trxcon(exe)
        r = tc.cmd("H1", *arg)
        tc.close()
        if r is None or tc.crashed:
            rc, err = tc.crashed or (None, "")
            ctx.violation("C20/setfh/memory", "trx_if.c died composing SETFH for %d channels (rc=%s)" % (len(ma), rc),
                          dict(h1=list(arg), stderr=err))
            continue
        h1 = dict(hsn=arg[0], maio=arg[1], ma=list(ma))
        if r["rc"] != 0 and not r["sent"]:
            ev = dict(e="h1refused", h1=h1, rc=r["rc"])
        else:
            ev = dict(e="enq", texts=[list(bytes(r["sent"][0])[:-1])] if r["sent"] else [], crit=[True],
                      status=dict(st=r["st"], term=r["term"], q=r["q"], timer=r["timer"]), sent=r["sent"], h1=[h1])
        traces.append(dict(id="h%d" % k, cfg={}, ev=[ev]))
        ctx.count()
    res, stats = tlc.validate_traces("TrxconTrace.tla", "TrxconTrace.cfg", traces, scratch=ctx.scratch, parallel=3)
    ctx.add_tv("TV TrxconTrace (SETFH composed from hopping lists by the real trx_if.c)", stats, len(traces))
    byid = {t["id"]: t for t in traces}
    nref = 0
    for v in res:
        e = byid[v["id"]]["ev"][0]
        nref += e["e"] == "h1refused"
        if v["reached"] != v["n"]:
            h = e["h1"] if e["e"] == "h1refused" else e["h1"][0]
            ctx.violation("C20/%s/n-%d" % (v["tag"].replace("C05.trxcon.", "setfh."), len(h["ma"])),
                          "SETFH for a hopping list of %d channels (first ARFCN %d): %s; %s"
                          % (len(h["ma"]), h["ma"][0] & 0x3ff, v["tag"],
                             "refused rc=%s" % e.get("rc") if e["e"] == "h1refused" else "sent %d octets" % len(e["texts"][0] if e["texts"] else [])),
                          dict(h1=h, event={a: b for a, b in e.items() if a not in ("sent",)}))
    ctx.extra["setfh_lists"] = len(traces)
    ctx.extra["setfh_lists_refused_as_too_long"] = nref


def si_compute(scratch, seed, thorough, exe):
    """Everything of the stage that does not touch ctx (runs beside the other stages)."""
    os.makedirs(scratch, exist_ok=True)
    rng = _SiRng(seed).r
    out = dict(tlc=[], tv=[], jobs=[], violations=[], extra={}, logs=[], count=0, distinct=[], samples=[])
    with ThreadPoolExecutor(max_workers=3) as ex:
        f_mc = ex.submit(tlc.run, "SysinfoMAMC.tla", "MC_SysinfoMAFull.cfg" if thorough else "MC_SysinfoMA.cfg",
                         workers=4 if thorough else 2, timeout=1800, coverage=thorough)
        f_bad = ex.submit(tlc.run, "SysinfoMAMC.tla", "MC_SysinfoMABad.cfg", workers=1, timeout=600)
        # ---- drive the real code
        cells = si_run_cells(exe, si_cells(rng, thorough))
        hdr = si_run_cells(exe, si_hdr_cells(rng, thorough), max_crashes=8, class_crashes=8)
        r, rb = f_mc.result(), f_bad.result()
    out["tlc"].append(("MC %s (SI1/SI4 sequences of any length: %s)"
                       % (("MC_SysinfoMAFull.cfg", "ARFCN 0..4, bitmaps of 0..2 three-bit octets + over-long")
                          if thorough else ("MC_SysinfoMA.cfg", "ARFCN 0..3, bitmaps of 0..2 two-bit octets + over-long")), r))
    out["logs"].append("MC SysinfoMA %s" % r.summary())
    if not r.ok:
        out["violations"].append(("C20/spec/si/%s" % r.violation["name"],
                                  "TLC: %s violated in SysinfoMA" % r.violation["name"],
                                  dict(trace=r.violation.get("trace", "")[-6000:], cmd=r.cmd)))
    elif thorough:
        for act in ("RxSI1", "RxSI4"):
            if act in r.coverage and r.coverage[act][1] == 0:
                raise tlc.MachineryError("MC_SysinfoMA: action %s never taken (vacuous model)" % act)
    out["jobs"].append(dict(job="MC MC_SysinfoMABad.cfg (sensitivity: an SI1 that does not re-apply the stored SI4 "
                                "must violate HopIsDecode)", **rb.summary()))
    if rb.ok or rb.violation["name"] != "HopIsDecode":
        raise tlc.MachineryError("sensitivity run MC_SysinfoMABad.cfg: expected HopIsDecode to be violated, got %s"
                                 % (rb.violation,))
    # ---- memory verdicts
    orders, kinds, fmts = {}, {}, {}
    skipped = 0
    okc = []
    for c in cells + hdr:
        out["count"] += len(c["ops"])
        orders[c["order"]] = orders.get(c["order"], 0) + 1
        for op in c["ops"]:
            if op[0] == "SI4":
                kd = si_parse_kind(op[1])[0]
                kinds[kd] = kinds.get(kd, 0) + 1
        if "crash" in c:
            cr = c["crash"]
            op = c["ops"][cr["op"]]
            kd = si_parse_kind(op[1])[0] if op[0] == "SI4" else "si1"
            if op[0] == "SI1" and "gsm48_decode_freq_list" in cr["stderr"] and \
                    not re.search(r"gsm48_decode_(mobile_alloc|sysinfo4)", cr["stderr"]):
                # decoding of the Cell Channel Description itself is not C20's subject
                out["extra"]["si_out_of_scope_reports"] = out["extra"].get("si_out_of_scope_reports", 0) + 1
                out["logs"].append("si: sanitizer report inside gsm48_decode_freq_list (not C20): SI1 %s" % bytes(op[1]).hex())
                continue
            if op[0] == "SI4" and kd == "trunc-hdr" and cr["kind"] == "asan-heap-buffer-overflow":
                sig = SI_FINDING_995
            elif op[0] == "SI4":
                sig = "C20/si4/memory/%s/%s" % (cr["kind"], kd)
            else:
                sig = "C20/si1/memory/%s/%s" % (cr["kind"], si_shape(c, cr["op"] - 1) if cr["op"] else "first")
            out["violations"].append((
                sig, "%s handler killed by the sanitizer (%s) at op %d of sequence %s: %s (%d octets, %s)"
                % (op[0], cr["kind"], cr["op"] + 1, c["order"], bytes(op[1]).hex(), len(op[1]), kd),
                dict(order=c["order"], driver_script=["N"] + [si_line(o) for o in c["ops"]], failing_op=cr["op"] + 1,
                     stderr=cr["stderr"])))
        elif "ev" in c and len(c["ev"]) == len(c["ops"]) + 1:
            okc.append(c)
        else:
            skipped += 1
    if skipped:
        out["logs"].append("si: %d cells not executed (their input class already killed the driver)" % skipped)
        out["extra"]["si_cells_skipped_after_crashes"] = skipped
    # ---- TV
    traces = []
    per = 10
    for k in range(0, len(okc), per):
        ev, where = [], []
        for c in okc[k:k + per]:
            for j, e in enumerate(c["ev"]):
                ev.append(e)
                where.append((c, j - 1))
        traces.append(dict(id="si%d" % (k // per), ev=ev, where=where))
    nviol = len(out["violations"])
    nev = si_validate(scratch, traces, out, parallel=4 if thorough else 2)
    if thorough and len(out["violations"]) == nviol:
        si_selftest(scratch, traces, out)
    # ---- evidence
    big = nonempty = with0 = 0
    for c in okc:
        last_live = None
        for e in c["ev"][1:]:
            if e["e"] == "si1":
                big += len(e["serv"]) > 64
                with0 += bool(e["serv"]) and e["serv"][0] == 0
            if e["hoppLen"]:
                nonempty += 1
                last_live = e
        if last_live is not None:
            out["distinct"].append((tuple(last_live["serv"]), tuple(last_live["hopping"]), c["order"]))
    for c in okc[:1]:
        out["samples"].append(dict(stage="si", order=c["order"], script=["N"] + [si_line(o) for o in c["ops"]],
                                   last=dict((k, c["ev"][-1][k]) for k in ("rc", "hoppLen", "hopping"))))
    if okc and not nonempty and not out["violations"]:
        raise tlc.MachineryError("si stage: no sequence produced a non-empty hopping list (vacuous)")
    out["extra"].update(si_cells=len(cells) + len(hdr), si_messages=out["count"], si_events_validated=nev,
                        si_orders=orders, si_si4_kinds=kinds, si_cell_allocations_gt64=big,
                        si_cell_allocations_with_arfcn0=with0, si_events_with_nonempty_list=nonempty)
    out["logs"].append("si: %d cells / %d messages driven, %d events validated, %d violation(s)"
                       % (len(cells) + len(hdr), out["count"], nev, len(out["violations"])))
    return out


def si_fold(ctx, out):
    """Apply the stage's results to ctx (main thread)."""
    # SI_FINDING_995: until fix 4420c23 sysinfo.c:995 read data[1] of a message ending right after the IEI
    # 0x72 (one octet past the message); the input class keeps its own signature so that a regression
    # is recognised; nothing is suppressed here.
    for label, r in out["tlc"]:
        ctx.add_tlc(label, r)
    for label, stats, n in out["tv"]:
        ctx.add_tv(label, stats, n)
    ctx.jobs.extend(out["jobs"])
    for ln in out["logs"]:
        ctx.log(ln)
    for sig, what, replay in out["violations"]:
        ctx.violation(sig, what, replay)
    ctx.count(out["count"])
    for key in out["distinct"]:
        ctx.distinct(("si",) + key)
    for smp in out["samples"]:
        ctx.sample(smp, limit=5)
    ctx.extra.update(out["extra"])
    ctx.trusted += ["drv_sysinfo_ma.c (exact-size message buffers, ASan-poisoned si5_msg..si13_msg, reads back "
                    "SERV/HOPP marks, hopping[], hopp_len)",
                    "slicing of gsm48_decode_sysinfo1/4, decode_freq_list, chan_h0/h1, cell_sel_param, rach_ctl_param; "
                    "stand-ins for LAI / rest-octet decoding and logging (shim/sysinfo)",
                    "in-repo libosmocore gsm48_ie.c compiled whole (gsm48_decode_freq_list), gsm_04_08.h"]
    ctx.assumptions += ["SI1/SI4 stage: the cell allocation is what the code itself marks FREQ_TYPE_SERV after SI1; "
                        "SI1 messages have at least their 22-octet fixed part, SI4 at least 13 (the callers refuse shorter ones)",
                        "SI1/SI4 stage don't-cares: the list after an SI4 without the Mobile Allocation IE, and after an SI1 "
                        "whose most recent SI4 carried no usable bitmap (no IE / refused / over-long) - sysinfo.c keeps the "
                        "list of the old cell allocation there; rc of gsm48_decode_sysinfo4 for an over-long IE "
                        "(only possible in messages of 24+ octets; the decoder's -EINVAL is ignored by the handler)"]
    ctx.rule += ("; SI1/SI4 stage: cells = fixed orders (SI1-SI4, SI4-SI1, SI1-SI4-SI1', SI4-SI4', SI1-SI4-SI4'(no IE)-SI1', "
                 "refused SI4 in between) x cell allocations in bit map 0 / variable bit map / range formats (1..64 and >64 "
                 "channels, with/without ARFCN 0) x Mobile Allocation IE lengths 0..9 with/without CBCH channel description "
                 "+ every prefix of complete SI4 messages + random mixes; non-trivial = sequence ending with a non-empty "
                 "hopping list, distinct by (cell allocation, list, order)")
