"""C20 - Mobile Allocation decoding selects exactly the flagged cell channels.

MC : spec/MobileAlloc.tla - Decode() written from 44.018 10.5.2.21, the decoder
     as an algorithm with explicit program state; TLC checks `Algorithm refines
     Decode`, the facts of the property text about Decode and one index-bound
     invariant per array access, exhaustively for the scaled universe
     (MC_MobileAlloc.cfg).  MC_MobileAllocTree.cfg is the transcription of the
     tree without the len = 0 return: it must violate FWriteInBounds
     (sensitivity of the invariants).
TV : the real gsm48_decode_mobile_alloc() sliced from the working-tree
     sysinfo.c (real struct gsm_sysinfo_freq / FREQ_TYPE_*), ASan+UBSan, heap
     buffers of exactly the callers' sizes; (a) result records validated
     against Decode, (b) executions at the granularity of the function's own
     log lines validated as runs of the Algorithm (spec/MobAllocTrace.tla).
GEN: spec/MobAllocGen.tla enumerates a complete boundary universe with
     Decode's answers; every case is replayed into the real function.
"""
import json
import os
import re
from concurrent.futures import ThreadPoolExecutor

from .. import cbuild, tlc
from ..core import REPO

ID = "C20"
LEVEL = "model_checking"
L23 = os.path.join(REPO, "src/host/layer23")
STALE = 0xaa            # *hopp_len before the call (drv_moballoc.c)
UBSAN_ENV = {"UBSAN_OPTIONS": "print_stacktrace=0:exitcode=98"}   # vla-bound is built recoverable
MAX_CRASHES = 40        # sanitizer aborts tolerated per driver batch
CLASS_CRASHES = 6       # ... and per input class (len_class) before that class is no longer executed


# ------------------------------------------------------------------ build
def build(ctx):
    sysinfo_c = L23 + "/src/common/sysinfo.c"
    sysinfo_h = L23 + "/include/osmocom/bb/common/sysinfo.h"
    fn = cbuild.slice_function(sysinfo_c, r"^int gsm48_decode_mobile_alloc\s*\(")
    masks = cbuild.slice_lines(sysinfo_h, r"^#define\s+FREQ_TYPE_SERV\b", r"^#define\s+FREQ_TYPE_REP_5ter\b")
    proto = cbuild.slice_lines(sysinfo_h, r"^int gsm48_decode_mobile_alloc\s*\(", r"\)\s*;")
    s = ctx.scratch
    with open(s + "/moballoc_gen.h", "w") as f:
        f.write("#pragma once\n#include <stdint.h>\n#include <errno.h>\n#include <osmocom/gsm/gsm48_ie.h>\n"
                "/* sliced from sysinfo.h */\n" + masks +
                "void vf_logp(const char *fmt, ...);\n#undef LOGP\n#undef DRR\n#define DRR 0\n"
                "#ifndef LOGL_INFO\n#define LOGL_INFO 3\n#define LOGL_NOTICE 5\n#define LOGL_ERROR 7\n#endif\n"
                "#define LOGP(ss, level, fmt, args...) vf_logp(fmt, ## args)\n"
                "/* sliced from sysinfo.h */\n" + proto)
    with open(s + "/moballoc_slice.c", "w") as f:
        f.write('#include "moballoc_gen.h"\n/* sliced from sysinfo.c */\n' + fn + "\n")
    exe = s + "/drv_moballoc"
    cbuild.cc(exe, [s + "/moballoc_slice.c", cbuild.HC + "/drv_moballoc.c"],
              includes=[s, cbuild.LIBOSMO + "/include"], extra=["-fsanitize-recover=vla-bound"])
    return exe


# ------------------------------------------------------------------ cases
CA_SIZES = [0, 1, 2, 3, 7, 8, 9, 15, 16, 17, 31, 32, 33, 56, 63, 64]
CA_BIG = [65, 66, 72, 100, 200, 1024]


def make_ca(rng, size, with0):
    size = min(size, 1024)
    if size == 0:
        return []
    n = size - (1 if with0 else 0)
    n = min(n, 1023)
    style = rng.random()
    if style < 0.2 and n <= 900:
        a = rng.randint(1, 1023 - n + 1)
        body = list(range(a, a + n))                       # one block
    elif style < 0.3 and n >= 1:
        body = sorted(set([1023] + rng.sample(range(1, 1023), n - 1))) if n > 1 else [1023]
    else:
        body = sorted(rng.sample(range(1, 1024), n))
    return ([0] if with0 else []) + body


def make_bitmap(rng, length, style, nca):
    nbits = 8 * length
    bits = [0] * nbits                                     # bits[i-1] = MA C i
    if nbits:
        if style == "random":
            bits = [rng.randint(0, 1) for _ in range(nbits)]
        elif style == "ones":
            bits = [1] * nbits
        elif style == "zero":
            pass
        elif style == "single":
            bits[rng.randrange(nbits)] = 1
        elif style == "lsb":
            bits[0] = 1
        elif style == "msb":
            bits[nbits - 1] = 1
        elif style == "exact":                             # exactly the CA
            bits = [1 if k < nca else 0 for k in range(nbits)]
        elif style == "beyond":                            # only bits beyond the CA
            bits = [1 if (k >= nca and rng.random() < 0.5) else 0 for k in range(nbits)]
            if nca < nbits:
                bits[rng.randrange(nca, nbits)] = 1
        elif style == "edge":                              # last CA bit and the first beyond
            if 1 <= nca <= nbits:
                bits[nca - 1] = 1
            if nca < nbits:
                bits[nca] = 1
            for k in range(nbits):
                if rng.random() < 0.15:
                    bits[k] = 1
        elif style == "sparse":
            bits = [1 if rng.random() < 0.1 else 0 for _ in range(nbits)]
    octs = []
    for o in range(length):                                # IE order: last octet holds MA C 8..1
        base = 8 * (length - 1 - o)
        octs.append(sum(bits[base + b] << b for b in range(8)))
    return octs


STYLES = ["random", "ones", "zero", "single", "lsb", "msb", "exact", "beyond", "edge", "sparse"]


def make_pre(rng, ca):
    r = rng.random()
    if r < 0.3:
        return []
    if r < 0.45:
        return list(ca)
    pool = rng.sample(range(1024), rng.randint(1, 5)) + (rng.sample(ca, min(len(ca), rng.randint(0, 3))) if ca else [])
    return sorted(set(pool))


def rand_case(rng, steps=0):
    r = rng.random()
    if r < 0.05:
        size = rng.choice(CA_BIG)
    elif r < 0.45:
        size = rng.choice(CA_SIZES)
    else:
        size = rng.randint(0, 64)
    ca = make_ca(rng, size, rng.random() < 0.5)
    r = rng.random()
    if r < 0.03:
        length = rng.choice([10, 16, 100, 255])
    else:
        length = rng.choice([0, 1, 1, 2, 3, 4, 5, 6, 7, 8, 8, 8, 9])
    bm = make_bitmap(rng, length, rng.choice(STYLES), len(ca))
    return dict(ca=ca, len=length, bitmap=bm, si4=rng.randint(0, 1), pre=make_pre(rng, ca), steps=steps)


def grid_cases(rng):
    """Deterministic product: all lengths 0..9 x boundary CA sizes x ARFCN 0 in/out x
    bitmap styles x si4."""
    out = []
    for length in range(0, 10):
        for size in [0, 1, 2, 7, 8, 9, 33, 63, 64, 65, 100]:
            for with0 in (0, 1):
                if size == 0 and with0:
                    continue
                for style in ("ones", "lsb", "msb", "beyond", "edge", "random"):
                    ca = make_ca(rng, size, with0)
                    out.append(dict(ca=ca, len=length, bitmap=make_bitmap(rng, length, style, len(ca)),
                                    si4=(len(out) & 1), pre=make_pre(rng, ca), steps=0))
    return out


def case_line(c):
    return "D %d %d %d B %s C %s P %s" % (c["si4"], c["len"], c.get("steps", 0),
                                          " ".join(map(str, c["bitmap"])), " ".join(map(str, c["ca"])),
                                          " ".join(map(str, c["pre"])))


def len_class(c):
    if c["len"] == 0:
        return "len0-" + ("nonempty-ca" if c["ca"] else "empty-ca")
    if c["len"] > 8:
        return "len9plus"
    return "len1-8" + ("-ca-gt-64" if len(c["ca"]) > 64 else "")


# ------------------------------------------------------------------ driver
def mem_kind(rc, err):
    m = re.search(r"AddressSanitizer: ([a-zA-Z-]+)", err)
    if m:
        return "asan-" + m.group(1)
    if "runtime error: index" in err and "out of bounds" in err:
        return "ubsan-index-out-of-bounds"
    if "variable length array bound" in err and rc == 98:
        return "ubsan-vla-bound"
    m = re.search(r"runtime error: ([a-z ]+)", err)
    if m:
        return "ubsan-" + "-".join(m.group(1).split()[:4])
    return "crash-rc%s" % rc


def run_batch(exe, cases):
    """Run cases through driver processes; returns a list parallel to cases of
    result dicts, {"crash": kind, "stderr": ..} or None (not executed: the driver
    was already killed CLASS_CRASHES times by inputs of the same class, or
    MAX_CRASHES times in this batch)."""
    res = [None] * len(cases)
    pending = list(range(len(cases)))
    by_class = {}
    total = 0
    while pending and total < MAX_CRASHES:
        idxs = [k for k in pending if by_class.get(len_class(cases[k]), 0) < CLASS_CRASHES]
        if not idxs:
            break
        rc, out, err = cbuild.run_driver(exe, "\n".join(case_line(cases[k]) for k in idxs) + "\n",
                                         timeout=1200, env=UBSAN_ENV)
        got = 0
        for ln in out.splitlines():
            try:
                r = json.loads(ln)
            except ValueError:
                break
            if "error" in r:
                raise tlc.MachineryError("drv_moballoc: %s" % r["error"])
            res[idxs[got]] = r
            got += 1
        if got == len(idxs):
            break
        if rc == 0:
            raise tlc.MachineryError("drv_moballoc stopped after %d of %d cases without a crash:\n%s"
                                     % (got, len(idxs), err[-1500:]))
        # the case after the last printed result killed the driver
        k = idxs[got]
        tail = err[-4000:]
        res[k] = dict(crash=mem_kind(rc, tail), rc=rc, stderr=tail)
        cl = len_class(cases[k])
        by_class[cl] = by_class.get(cl, 0) + 1
        total += 1
        pending = idxs[got + 1:]
    return res


def run_cases(exe, cases, workers=4):
    if not cases:
        return []
    n = max(1, min(workers, (len(cases) + 199) // 200))
    size = (len(cases) + n - 1) // n
    parts = [cases[k:k + size] for k in range(0, len(cases), size)]
    with ThreadPoolExecutor(max_workers=n) as ex:
        outs = list(ex.map(lambda p: run_batch(exe, p), parts))
    return [r for o in outs for r in o]


def record(c, r):
    return dict(e="dec", ca=c["ca"], len=c["len"], bitmap=c["bitmap"], si4=c["si4"], pre=c["pre"],
                rc=r["rc"], hopping=r["hopping"], hoppLen=r["hoppLen"], hoppMask=r["hoppMask"])


def alg_events(c, r):
    ev = [dict(e="call", ca=c["ca"], len=c["len"], bitmap=c["bitmap"], si4=c["si4"], pre=c["pre"], stale=STALE)]
    for s in r["steps"]:
        if s[0] == "s":
            ev.append(dict(e="s", j=s[1], arfcn=s[2]))
        elif s[0] == "h":
            ev.append(dict(e="h", i=s[1]))
        elif s[0] == "x":
            ev.append(dict(e="x", idx=s[1], j=s[2]))
        else:
            ev.append(dict(e="unknown-log-line"))
    ev.append(dict(e="ret", rc=r["rc"], hopping=r["hopping"], hoppLen=r["hoppLen"], hoppMask=r["hoppMask"]))
    return ev


def py_flagged(c):
    """Not an oracle: only counts non-trivial cases for the evidence file."""
    return sum(bin(o).count("1") for o in c["bitmap"]) if c["len"] <= 8 else 0


# ------------------------------------------------------------------ check
def handle_results(ctx, cases, results, what):
    """Memory verdicts; returns the (case, result) pairs that returned normally."""
    ok = []
    skipped = 0
    for c, r in zip(cases, results):
        ctx.count()
        if r is None:
            skipped += 1
            continue
        if "crash" in r:
            ctx.violation("C20/memory/%s/%s" % (r["crash"], len_class(c)),
                          "%s: decoder killed by the sanitizer (%s) on len=%d, |CA|=%d, bitmap=%s, si4=%d"
                          % (what, r["crash"], c["len"], len(c["ca"]), c["bitmap"][:10], c["si4"]),
                          dict(case=c, driver_line=case_line(c), stderr=r["stderr"]))
            continue
        for k in r.get("ubsan", []):
            kind = "ubsan-vla-bound" if "vla" in k else "ubsan-" + k
            ctx.violation("C20/memory/%s/%s" % (kind, len_class(c)),
                          "%s: UBSan report '%s' on len=%d, |CA|=%d (execution continued)"
                          % (what, k, c["len"], len(c["ca"])),
                          dict(case=c, driver_line=case_line(c), result=r))
        if py_flagged(c) and c["ca"]:
            ctx.distinct((tuple(c["ca"]), tuple(c["bitmap"]), c["si4"]))
        ok.append((c, r))
    if skipped:
        ctx.log("%s: %d cases not executed (their input class already killed the driver %d times)"
                % (what, skipped, CLASS_CRASHES))
        ctx.extra["cases_skipped_after_crashes"] = ctx.extra.get("cases_skipped_after_crashes", 0) + skipped
    return ok


def validate(ctx, label, traces, parallel=4):
    """TV of traces {id, ev, cases} (cases[k] = the input that produced ev[k]); the
    unvalidated remainder of a rejected trace is re-submitted."""
    nev = 0
    rounds = 0
    while traces and rounds < 6:
        rounds += 1
        send = [dict(id=t["id"], cfg={}, ev=t["ev"]) for t in traces]
        res, stats = tlc.validate_traces("MobAllocTrace.tla", "MobAllocTrace.cfg", send, scratch=ctx.scratch,
                                         chunk="balance", parallel=parallel, timeout=3000)
        ctx.add_tv("TV %s%s" % (label, "" if rounds == 1 else " (remainder %d)" % rounds), stats, len(traces))
        byid = {t["id"]: t for t in traces}
        nxt = []
        for v in res:
            tr = byid[v["id"]]
            nev += v["reached"]
            if v["reached"] == v["n"]:
                continue
            tag = (v["tag"] or "no-action-enabled").replace("C20.", "")
            bad = tr["ev"][v["reached"]]
            c = tr["cases"][v["reached"]]
            ctx.violation("C20/%s/%s" % (tag, len_class(c)),
                          "trace %s rejected at event %d/%d (%s): len=%d |CA|=%d bitmap=%s si4=%d -> %s"
                          % (v["id"], v["reached"] + 1, v["n"], tag, c["len"], len(c["ca"]), c["bitmap"][:10],
                             c["si4"], {k: bad[k] for k in bad if k not in ("ca", "bitmap", "pre")}),
                          dict(case=c, driver_line=case_line(c), event=bad, verdict=v))
            k = v["reached"] + 1
            if tr["ev"][0]["e"] != "dec":                 # step-level trace: skip to the next call
                while k < len(tr["ev"]) and tr["ev"][k]["e"] != "call":
                    k += 1
            if k < len(tr["ev"]):
                nxt.append(dict(id=tr["id"] + "+", ev=tr["ev"][k:], cases=tr["cases"][k:]))
        traces = nxt
    return nev


def selftest(ctx, traces):
    """The trace spec must reject a corrupted output at exactly that record and
    an execution with a dropped step at exactly that step."""
    import copy
    jobs = []
    for t in traces:
        if t["ev"][0]["e"] == "dec":
            for k, e in enumerate(t["ev"]):
                if e["rc"] == 0 and e["hoppLen"] >= 2:
                    c = copy.deepcopy(t["ev"][:k + 2])
                    c[k]["hopping"][0], c[k]["hopping"][1] = c[k]["hopping"][1], c[k]["hopping"][0]
                    jobs.append((dict(id="st-swap", cfg={}, ev=c), k, "C20.decode.order"))
                    c = copy.deepcopy(t["ev"][:k + 2])
                    c[k]["hopping"] = c[k]["hopping"][:-1]
                    c[k]["hoppLen"] -= 1
                    jobs.append((dict(id="st-short", cfg={}, ev=c), k, "C20.decode.set"))
                    c = copy.deepcopy(t["ev"][:k + 2])
                    c[k]["rc"] = -22
                    jobs.append((dict(id="st-rc", cfg={}, ev=c), k, "C20.valid-rejected"))
                    break
            if jobs:
                break
    for t in traces:
        if t["ev"][0]["e"] == "call":
            ks = [k for k, e in enumerate(t["ev"]) if e["e"] == "s"]
            if ks:
                k = ks[len(ks) // 2]
                jobs.append((dict(id="st-drop", cfg={}, ev=t["ev"][:k] + t["ev"][k + 1:]), k, "C20.alg."))
                break
    if len(jobs) < 4:
        raise tlc.MachineryError("self-test: no suitable accepted traces to corrupt")
    res, stats = tlc.validate_traces("MobAllocTrace.tla", "MobAllocTrace.cfg", [j[0] for j in jobs], scratch=ctx.scratch)
    ctx.jobs.append(dict(job="self-test: corrupted traces must be rejected at the corrupted event", **stats))
    verdict = {v["id"]: v for v in res}           # verdicts are not guaranteed to come in input order
    for tr, k, tag in jobs:
        v = verdict[tr["id"]]
        if v["reached"] != k or not v["tag"].startswith(tag):
            raise tlc.MachineryError("self-test %s: expected rejection at event %d with %s, got %s" % (tr["id"], k + 1, tag, v))
    ctx.extra["selftest_corruptions_rejected"] = len(jobs)


def run(ctx):
    exe = build(ctx)
    ctx.trusted += ["drv_moballoc.c (allocates exact-size buffers, prints outputs and the function's log lines)",
                    "cbuild.slice_function/slice_lines (text slicing of gsm48_decode_mobile_alloc, FREQ_TYPE_*, prototype)",
                    "LOGP shim macro -> vf_logp()", "in-repo libosmocore gsm48_ie.h (struct gsm_sysinfo_freq)",
                    "clang ASan/UBSan", "TLC + CommunityModules"]
    ctx.assumptions += ["buffer sizes as passed by the real callers: freq[1024], hopping[64] (sysinfo.h, gsm48_rr.c)",
                        "outputs after a rejection (rc != 0) and the HOPP flags for si4 = 0 are don't-cares of the "
                        "result records (the step-level traces compare the flags with the algorithm)",
                        "cell allocations larger than 64 are driven for memory safety and compared with Decode "
                        "(first 8*len entries of the ordered list), although outside the quantifier"]
    # ---- MC, sensitivity run and GEN enumeration run concurrently ----------
    genf = os.path.join(ctx.scratch, "gen.json")
    with ThreadPoolExecutor(max_workers=3) as ex:
        f_mc = ex.submit(tlc.run, "MobileAlloc.tla", "MC_MobileAlloc.cfg", workers=4, timeout=1800, coverage=ctx.thorough)
        f_tree = ex.submit(tlc.run, "MobileAlloc.tla", "MC_MobileAllocTree.cfg", workers=2, timeout=1800)
        f_gen = ex.submit(tlc.run, "MobAllocGen.tla", "MobAllocGen.cfg", workers=1, env=dict(OUT_FILE=genf))
        r, r2, rg = f_mc.result(), f_tree.result(), f_gen.result()
    ctx.add_tlc("MC MC_MobileAlloc.cfg (ARFCN 0..5, any CA, bitmaps of 0..2 three-bit octets + over-long)", r)
    ctx.log("MC MC_MobileAlloc", r.summary())
    if not r.ok:
        tr = r.violation.get("trace", "")
        disc = "len0" if re.search(r"ma = <<\s*>>", tr) else "len1plus"
        ctx.violation("C20/spec/%s/%s" % (r.violation["name"], disc),
                      "TLC: %s violated by the algorithm in MC_MobileAlloc.cfg" % r.violation["name"],
                      dict(trace=tr[-6000:], cmd=r.cmd))
    elif ctx.thorough:
        for act in ("Entry", "Gen", "GenWrite", "Hop", "HopSet"):
            if act in r.coverage and r.coverage[act][1] == 0:
                raise tlc.MachineryError("MC_MobileAlloc: action %s never taken (vacuous model)" % act)
    ctx.jobs.append(dict(job="MC MC_MobileAllocTree.cfg (sensitivity: without the len = 0 return the "
                             "transcription must violate FWriteInBounds)", **r2.summary()))
    if r2.ok or r2.violation["name"] != "FWriteInBounds":
        raise tlc.MachineryError("sensitivity run MC_MobileAllocTree.cfg: expected FWriteInBounds to be violated, got %s"
                                 % (r2.violation,))
    # ---- GEN: TLC-enumerated boundary universe ---------------------------
    ctx.add_tlc("GEN MobAllocGen.cfg", rg)
    if not rg.ok:
        raise tlc.MachineryError("MobAllocGen failed: %s" % rg.violation)
    with open(genf) as f:
        gen = json.load(f)
    gcases = [dict(ca=g["ca"], len=len(g["bitmap"]), bitmap=g["bitmap"], si4=1, pre=[g["ca"][0]] if g["ca"] else [7],
                   steps=0) for g in gen]
    gres = run_cases(exe, gcases)
    ctx.extra["spec_cases_replayed"] = len(gcases)
    for (c, rr), g in zip(zip(gcases, gres), gen):
        if rr is None or "crash" in rr:
            continue
        if g["ok"] != (rr["rc"] == 0):
            ctx.violation("C20/gen.%s/%s" % ("too-long-accepted" if rr["rc"] == 0 else "valid-rejected", len_class(c)),
                          "TLC case ca=%s bitmap=%s: spec ok=%s, code rc=%d" % (c["ca"], c["bitmap"], g["ok"], rr["rc"]),
                          dict(case=c, driver_line=case_line(c), expected=g, result=rr))
        elif g["ok"] and (rr["hopping"] != g["hop"] or sorted(rr["hoppMask"]) != sorted(g["hop"])):
            ctx.violation("C20/gen.decode/%s" % len_class(c),
                          "TLC case ca=%s bitmap=%s: Decode = %s, code hopping = %s, HOPP flags = %s"
                          % (c["ca"], c["bitmap"], g["hop"], rr["hopping"], rr["hoppMask"]),
                          dict(case=c, driver_line=case_line(c), expected=g, result=rr))
    handle_results(ctx, gcases, gres, "GEN")
    ctx.log("GEN: %d TLC-enumerated cases replayed" % len(gcases))

    # ---- TV ------------------------------------------------------------
    n_rounds = ctx.pick(1, 10)
    n_rand = ctx.pick(1000, 19000)
    n_alg = ctx.pick(150, 1200)
    total_ev = 0
    for rnd in range(n_rounds):
        cases = (grid_cases(ctx.rng) if rnd == 0 else []) + [rand_case(ctx.rng) for _ in range(n_rand)]
        acases = [rand_case(ctx.rng, steps=1) for _ in range(n_alg)]
        if rnd == 0:
            for length in range(0, 10):                # every length also at the step level
                for size, with0 in ((0, 0), (1, 1), (9, 0), (64, 1), (70, 1)):
                    ca = make_ca(ctx.rng, size, with0)
                    acases.append(dict(ca=ca, len=length, bitmap=make_bitmap(ctx.rng, length, "edge", len(ca)),
                                       si4=length & 1, pre=make_pre(ctx.rng, ca), steps=1))
        res = run_cases(exe, cases + acases)
        ok = handle_results(ctx, cases, res[:len(cases)], "TV")
        aok = handle_results(ctx, acases, res[len(cases):], "TV/steps")
        traces = []
        per = 100
        for k in range(0, len(ok), per):
            part = ok[k:k + per]
            traces.append(dict(id="r%d-%d" % (rnd, k // per), ev=[record(c, r) for c, r in part],
                               cases=[c for c, _ in part]))
        per = 12
        for k in range(0, len(aok), per):
            part = aok[k:k + per]
            ev, idx = [], []
            for c, r in part:
                e = alg_events(c, r)
                idx += [c] * len(e)
                ev += e
            traces.append(dict(id="a%d-%d" % (rnd, k // per), ev=ev, cases=idx))

        nviol = len(ctx.violations)
        total_ev += validate(ctx, "MobAllocTrace round %d" % rnd, traces)
        if rnd == 0 and len(ctx.violations) == nviol:
            selftest(ctx, traces)
        if rnd == 0:
            for c, r in ok[:2] + aok[:1]:
                ctx.sample(dict(case=c, result={k: r[k] for k in ("rc", "hoppLen", "hopping", "hoppMask")}))
        ctx.log("round %d: %d result records + %d step-level executions validated" % (rnd, len(ok), len(aok)))
        if len(ctx.violations) > 40:
            break
    ctx.extra["events_validated"] = total_ev
    ctx.rule = ("cases = TLC-enumerated boundary universe (all subsets of 6 ARFCNs x 292 bitmaps) + deterministic grid "
                "(len 0..9 x boundary CA sizes x ARFCN 0 in/out x bitmap styles x si4) + seeded random cases (CA size "
                "0..64 and >64, len 0..9 and a few longer, bitmaps random/all-ones/single-bit/beyond-CA/edge); executed by "
                "the sliced real function under ASan+UBSan; non-trivial = non-empty CA and at least one bit set in an "
                "accepted bitmap; distinct by (CA, bitmap, si4)")
