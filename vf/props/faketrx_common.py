"""Shared session generator / runner for the fake transceiver properties
(C02 C03 C05 C10 C12 C18 and the session part of C14)."""
import json
import os
import sys

from .. import tlc
from ..core import ROOT, TOOLKIT

sys.path.insert(0, os.path.join(ROOT, "harness", "py"))
sys.path.insert(0, TOOLKIT)

FREQS = [935200, 890200, 935400, 890400]         # kHz
HYPER = 2715648

CONFIGS = [
    [],
    ["--trx", "127.0.0.1:5700/1"],
    ["--trx", "127.0.0.1:5700/1", "--trx", "127.0.0.1:5700/2"],
    ["--trx", "127.0.0.1:6700/1"],
    ["--trx", "X@127.0.0.1:7700"],
    ["--trx", "X@127.0.0.1:7700", "--trx", "Y@127.0.0.1:7700/1", "--trx", "127.0.0.1:5700/1"],
    ["-P", "5900", "-p", "6900", "--trx", "127.0.0.1:5900/3"],
]


def mk_sim(rng, argv=None, period=None, start=None):
    import faketrx_drv as F
    argv = rng.choice(CONFIGS) if argv is None else argv
    sim = F.Sim(argv)
    if period is None:
        period = rng.choice([102, 102, 3, 5, 1])
    if start is None:
        start = rng.choice([0, 0, 0, HYPER - 3, HYPER - 1, 7, 101, rng.randrange(HYPER)])
    sim.app.clck_gen.ind_period = period
    sim.app.clck_gen.clck_start = start
    sim.period, sim.start, sim.argv = period, start, argv
    return sim


def _clamp(x):
    """JSON integers must fit TLC's 32 bit: values beyond are replaced by a sentinel
    (only used for the projection logged with a `wild` event, which is not compared)."""
    if isinstance(x, bool):
        return x
    if isinstance(x, int):
        return x if -2 ** 31 < x < 2 ** 31 else (2000000000 if x > 0 else -2000000000)
    if isinstance(x, list):
        return [_clamp(v) for v in x]
    if isinstance(x, dict):
        return {k: _clamp(v) for k, v in x.items()}
    return x


class Session:
    """Records events of one application instance."""

    def __init__(self, sid, sim):
        self.sim = sim
        self.id = sid
        self.ev = [dict(e="ports")]

    def _add(self, e):
        if e is None:
            return None
        e["proj"] = self.sim.proj()
        self.ev.append(e)
        return e

    def cmd(self, t, text, rport=45000, rhost="127.0.0.1"):
        if not hasattr(self, "last"):
            self.last, self.hist = {}, {}
        self.last[t] = text          # the last command on this control link (see repeat())
        self.hist.setdefault(t, []).append(text)
        raw = text if isinstance(text, (bytes, bytearray)) else (text.encode() + b"\0")
        return self._add(self.sim.cmd(t, raw, (rhost, rport)))

    def repeat(self, t):
        """The command last sent on this control link once more, octet for octet: every command is
        executed when it arrives, also when it equals the previous one (FAKE_DROP re-arms its counter,
        a relative FAKE_TOA / FAKE_RSSI moves again, POWERON of a running transceiver is refused)."""
        text = getattr(self, "last", {}).get(t)
        return None if text is None else self.cmd(t, text)

    def again(self, t, rng):
        """Some earlier command of this control link once more (not necessarily the last one): a SETFH
        repeated after a POWEROFF has forgotten it configures hopping again, and so on."""
        h = getattr(self, "hist", {}).get(t)
        return None if not h else self.cmd(t, rng.choice(h[-8:]))

    def pipelined(self, t, texts, rport=45000):
        """Several commands waiting on the control socket at once (see Sim.cmd_pipelined): each is
        executed and answered, in order, exactly as if it had arrived alone."""
        if not hasattr(self, "last"):
            self.last, self.hist = {}, {}
        raws = [x if isinstance(x, (bytes, bytearray)) else (x.encode() + b"\0") for x in texts]
        sock = self.sim.trx[t].ctrl_if.sock
        for raw in raws:
            sock.feed(raw, ("127.0.0.1", rport))
        for x, raw in zip(texts, raws):
            self.last[t] = x
            self.hist.setdefault(t, []).append(x)
            self._add(self.sim._serve_ctrl(t, raw, ("127.0.0.1", rport)))     # state projected after each
        sock.inbox.clear()

    def data(self, t, raw, remote=None):
        return self._add(self.sim.data(t, raw, remote))

    def tick(self):
        return self._add(self.sim.tick())

    def garbage(self, sock, t, raw, rport=45000):
        """A datagram that is not a well-formed documented command / message."""
        # hostile data comes from somewhere else than the transceiver's L1
        e = self.sim.cmd(t, raw, ("127.0.0.1", rport)) if sock == "ctrl" else \
            self.sim.data(t, raw, remote=("127.0.0.1", 40000 + (len(self.ev) % 7)))
        e["e"] = "garbage"
        e["sock"] = sock
        e.setdefault("rport", rport)
        return self._add(e)

    def wild(self, t, text, rport=45000):
        """A well-formed command with integers beyond 32 bit."""
        e = self.sim.cmd(t, text.encode() + b"\0", ("127.0.0.1", rport))
        e["e"] = "wild"
        e = self._add(e)
        e["proj"] = _clamp(e["proj"])
        return e

    def trace(self):
        return dict(id=self.id, cfg=dict(wire=self.sim.cfg(), period=self.sim.period, start=self.sim.start,
                                         argv=self.sim.argv), ev=self.ev)


# payload regions around the training sequence, per burst type (TS 45.002 5.2)
REGIONS = dict(nb=[(0, 61), (87, 148)], sb=[(0, 42), (106, 148)], ab=[(0, 8), (49, 148)])


def structured(rng, kind, bits):
    """The same burst with its payload regions (everything but the training sequence) filled with
    degenerate content - all zeros, all ones, alternating - in some or all regions: the training
    sequence that is present does not change, so neither may the TSC reported for it."""
    b = bytearray(bits)
    for (lo, hi) in REGIONS[kind]:
        fill = rng.choice(["keep", "zeros", "zeros", "ones", "alt"])
        for i in range(lo, hi):
            if fill == "zeros":
                b[i] = 0
            elif fill == "ones":
                b[i] = 1
            elif fill == "alt":
                b[i] = i & 1
    return bytes(b)


def burst_bits(rng, gen, kind=None):
    kind, bits = _burst_bits(rng, gen, kind)
    if kind in REGIONS and rng.random() < 0.3:
        bits = structured(rng, kind, bits)
    return kind, bits


def _burst_bits(rng, gen, kind=None):
    import gsm_shared
    kind = kind or rng.choice(["nb", "nb", "nb", "sb", "ab", "fb", "db", "rand", "edge", "rand"])
    if kind == "nb":
        ts = [t for t in gsm_shared.TrainingSeqGMSK if t.bt is gsm_shared.BurstType.NORMAL]
        return kind, bytes(gen.gen_nb(rng.choice(ts)))
    if kind == "sb":
        ts = [t for t in gsm_shared.TrainingSeqGMSK if t.bt is gsm_shared.BurstType.SYNC]
        return kind, bytes(gen.gen_sb(rng.choice(ts)))
    if kind == "ab":
        ts = [t for t in gsm_shared.TrainingSeqGMSK if t.bt is gsm_shared.BurstType.ACCESS]
        return kind, bytes(gen.gen_ab(rng.choice(ts)))
    if kind == "fb":
        return kind, bytes(gen.gen_fb())
    if kind == "db":
        return kind, bytes(gen.gen_db())
    if kind == "edge":
        return kind, bytes(rng.getrandbits(1) for _ in range(444))
    return kind, bytes(rng.getrandbits(1) for _ in range(148))


def tx_datagram(ver, fn, tn, pwr, bits):
    """An L1 -> TRX datagram as L1 would send it, written here from the protocol layout (not with
    the toolkit's own encoder: the input of a session must not depend on the code under test)."""
    return bytes([((ver & 0x0f) << 4) | (tn & 0x07)]) + int(fn).to_bytes(4, "big") + bytes([pwr & 0xff]) + bytes(bits)


def unique_tsc(bits):
    """DESIGN don't-care: crafted payloads with several training sequences."""
    import gsm_shared
    n = 0
    T = gsm_shared.TrainingSeqGMSK
    for ts in T:
        b = bytearray(bits)
        if ts.bt is gsm_shared.BurstType.NORMAL and ts.seq == b[61:][:26]:
            n += 1
        elif ts.bt is gsm_shared.BurstType.ACCESS and ts.seq == b[8:][:41]:
            n += 1
        elif ts.bt is gsm_shared.BurstType.SYNC and ts.seq == b[42:][:64]:
            n += 1
    return n <= 1


def seed_random(rng):
    import random
    random.seed(rng.getrandbits(32))


def setup_pair(s, rng, hop=False):
    """Tune BTS (0) and MS (1) to face each other, optionally with hopping on the MS."""
    f1, f2 = rng.sample(FREQS, 2)
    s.cmd(0, "CMD RXTUNE %d" % f2)
    s.cmd(0, "CMD TXTUNE %d" % f1)
    if hop:
        hsn = rng.randrange(64)
        n = rng.randint(1, 4)
        ma = []
        for _ in range(n):
            a, b = rng.choice(FREQS), rng.choice(FREQS)
            ma += [a, b]
        # make sure the BTS frequencies occur in the MA
        k = rng.randrange(n)
        ma[2 * k], ma[2 * k + 1] = f1, f2
        s.cmd(1, "CMD SETFH %d %d %s" % (hsn, rng.randrange(64), " ".join(str(x) for x in ma)))
    else:
        s.cmd(1, "CMD RXTUNE %d" % f1)
        s.cmd(1, "CMD TXTUNE %d" % f2)
    return f1, f2


def respell(rng, text, p=0.12):
    """The same command with some integer arguments spelled differently (explicit plus sign,
    leading zeros, -0): the reply must carry the arguments as they were sent."""
    toks = text.split(" ")
    for i in range(1, len(toks)):
        t = toks[i]
        if rng.random() < p and t.lstrip("-").isdigit() and len(t) < 7:
            v = int(t)
            forms = ["%04d" % v if v >= 0 else "-%04d" % -v]
            if v >= 0:
                forms += ["+%d" % v, "+0%d" % v]
            if v == 0:
                forms += ["-0", "00"]
            toks[i] = rng.choice(forms)
    return " ".join(toks)


def rand_cmd(rng, ntrx):
    return respell(rng, _rand_cmd(rng, ntrx))


def _rand_cmd(rng, ntrx):
    """A well-formed command (documented verb or not, any argument count)."""
    r = rng.random()
    f = rng.choice(FREQS + [rng.randint(1, 2000000), 0])       # 0 kHz is a frequency like any other
    small = rng.choice([0, 1, 2, 3, -1, 5, 10, 63, -5, 127, -128, 255, 300, rng.randint(-2000, 2000)])
    table = [
        "POWERON", "POWEROFF", "RXTUNE %d" % f, "TXTUNE %d" % f, "MEASURE %d" % f,
        "SETFORMAT %d" % rng.choice([0, 1, 1, 0, 2, 15, 16, -1, 7]),
        "SETPOWER %d" % rng.choice([0, 10, 20, 3, small]), "NOMTXPOWER", "RFMUTE %d" % rng.choice([0, 1, 1, 0, 2, -1]),
        "SETTA %d" % rng.choice([0, 1, 2, 63, -1, 5, -128, 127]),
        "FAKE_TOA %d %d" % (rng.choice([0, 256, -256, 1000, small]), rng.choice([0, 0, 5, 100, -1, -7])),
        "FAKE_TOA %d" % small,
        "FAKE_RSSI %d %d" % (rng.choice([-60, -47, -120, -80, -121, -46, small]), rng.choice([0, 0, 3, 10, -1])),
        "FAKE_RSSI %d" % rng.choice([1, -1, 5, -5, small]),
        "FAKE_CI %d %d" % (rng.choice([90, 0, -30, 1280, -1280, 1281, small]), rng.choice([0, 0, 5, 50, -1, -4])),
        "FAKE_CI %d" % small,
        "FAKE_DROP %d" % rng.choice([0, 1, 2, 3, 6, -1]),
        "FAKE_DROP %d %d" % (rng.choice([0, 1, 2, 3, 6, -1]), rng.choice([1, 2, 3, 5, 0, -1])),
        "FAKE_TRXC_DELAY %d" % rng.choice([0, 0, 5, 200]),
        "SETSLOT %d %d" % (rng.randrange(8), rng.choice([1, 5, 7, 13])), "ECHO", "SETRXGAIN 10", "FOOBAR", "FOOBAR 1 2 3",
        "POWERON 1", "RXTUNE", "SETFORMAT", "SETFORMAT 1 1", "FAKE_DROP", "FAKE_DROP 1 2 3", "SETTA 1 2", "MEASURE",
        "SETFH 1 2 3", "NOMTXPOWER 5",
    ]
    if r < 0.08:
        n = rng.randint(1, 5)
        ma = [rng.choice(FREQS) for _ in range(2 * n + rng.choice([0, 0, 1]))]
        hsn = rng.randrange(64) if rng.random() < 0.85 else rng.choice([64, 65, 100, 127, 255, 1000, -1, -64])
        return "SETFH %d %d %s" % (hsn, rng.choice([rng.randrange(64), rng.randrange(64), 64, 200, -1]), " ".join(str(x) for x in ma))
    return rng.choice(table)


def validate(ctx, traces, prefixes, label, discr=None):
    """Run FakeTrxTrace on the sessions; report rejections whose tag belongs to
    this property (tag prefix); other tags are reported by their own check."""
    res, stats = tlc.validate_traces("FakeTrxTrace.tla", "FakeTrxTrace.cfg", traces, scratch=ctx.scratch,
                                     chunk="balance", parallel=6, timeout=3000)
    ctx.add_tv(label, stats, len(traces))
    un = set()
    for t in traces:
        for e in t["ev"]:
            un.update((e.get("proj") or {}).get("unobs", ()))
    # state components the harness could not read from the application (not compared by the specification)
    ctx.extra["unobservable_state_components"] = sorted(set(ctx.extra.get("unobservable_state_components", [])) | un)
    byid = {t["id"]: t for t in traces}
    foreign = {}
    for v in res:
        tr = byid[v["id"]]
        if v["reached"] == v["n"]:
            continue
        e = tr["ev"][v["reached"]]
        tag = v["tag"]
        mine = tag.startswith(tuple(prefixes))
        d = discr(tr, e, tag) if discr else e["e"]
        small = {k: (x if k not in ("raw", "proj", "outs") else str(x)[:300]) for k, x in e.items()}
        if mine:
            ctx.violation("%s/%s/%s" % (ctx.pid, tag, d),
                          "session %s rejected at event %d/%d (%s): %s" % (v["id"], v["reached"] + 1, v["n"], e["e"], tag),
                          dict(argv=tr["cfg"]["argv"], period=tr["cfg"]["period"], start=tr["cfg"]["start"], event=small,
                               before=[{k: (x if k not in ("raw", "proj", "outs") else str(x)[:200]) for k, x in p.items()}
                                       for p in tr["ev"][max(0, v["reached"] - 6):v["reached"]]]))
        else:
            foreign[tag] = foreign.get(tag, 0) + 1
    if ctx.thorough or os.environ.get("VERIF_SELFTEST"):
        binding_selftest(ctx, [byid[v["id"]] for v in res if v["reached"] == v["n"]])
    if foreign:
        ctx.extra["rejections_owned_by_other_properties"] = foreign
        ctx.log("sessions rejected by clauses of other properties (reported by their checks):", foreign)
    return res


PROFILES = {
    # weights of: arrival, tick, power, format, drop/mute, sim-params (TA/power/fake windows), retune/hop
    "C03": dict(arr=0.42, tick=0.33, power=0.10, fmt=0.08, drop=0.02, simp=0.00, tune=0.05, off=(-3, 5), wrap=0.5, big=False),
    "C18": dict(arr=0.45, tick=0.28, power=0.02, fmt=0.05, drop=0.16, simp=0.02, tune=0.02, off=(0, 2), wrap=0.1, big=False),
    "C02": dict(arr=0.40, tick=0.25, power=0.08, fmt=0.03, drop=0.07, simp=0.00, tune=0.17, off=(0, 1), wrap=0.3, big=True),
    "C10": dict(arr=0.42, tick=0.30, power=0.01, fmt=0.05, drop=0.00, simp=0.20, tune=0.02, off=(0, 1), wrap=0.1, big=False),
}


def traffic_session(ctx, sid, prof, length=None):
    """A session with burst traffic.  The profile weights what is interleaved."""
    import rand_burst_gen
    rng = ctx.rng
    seed_random(rng)
    P = PROFILES[prof]
    start = None
    if rng.random() < P["wrap"]:
        start = HYPER - rng.randint(1, 6)
    argv = rng.choice(CONFIGS if (P["big"] or (prof == "C18" and rng.random() < 0.5)) else CONFIGS[:3])
    sim = mk_sim(rng, argv=argv, start=start)
    s = Session(sid, sim)
    n = len(sim.trx)
    gen = rand_burst_gen.RandBurstGen()
    if rng.random() < (0.25 if prof == "C02" else 0.08):
        # the L1 of one transceiver has died without POWEROFF: nobody listens on its data port any more
        # (what the other transceivers get does not depend on that)
        dt = rng.randrange(n)
        sim.net.dead.add(sim.trx[dt].data_if.remote_port)
    hop = rng.random() < (0.5 if prof == "C02" else 0.15)
    setup_pair(s, rng, hop=hop)
    for t in range(2, n):                     # extra transceivers: tuned like the BTS / the MS, or elsewhere
        r = rng.random()
        if r < 0.55:
            lrx, ltx = sim.tuned(rng.choice([0, 1]))
            if lrx is not None and ltx is not None:
                s.cmd(t, "CMD RXTUNE %d" % (lrx // 1000))
                s.cmd(t, "CMD TXTUNE %d" % (ltx // 1000))
        elif r < 0.85:
            s.cmd(t, "CMD RXTUNE %d" % rng.choice(FREQS))
            s.cmd(t, "CMD TXTUNE %d" % rng.choice(FREQS))
    if prof in ("C18", "C10"):
        for t in range(n):                     # senders with a timing advance
            if rng.random() < 0.4:
                s.cmd(t, "CMD SETTA %d" % rng.choice([1, 2, 5, 63, -1]))
    for t in range(n):
        if rng.random() < 0.6:
            s.cmd(t, "CMD SETFORMAT %d" % rng.choice([0, 1]))
    for t in range(n):
        if rng.random() < 0.9:
            s.cmd(t, "CMD POWERON")
    g = sim.app.clck_gen
    steps = length or rng.randint(25, 70)
    for _ in range(steps):
        r = rng.random()
        t = rng.randrange(n)
        trx = sim.trx[t]
        if rng.random() < 0.06:
            s.repeat(t) if rng.random() < 0.6 else s.again(t, rng)
            continue
        if r < P["arr"]:
            src = g.clck_src if g.running else 0
            off = rng.randint(*P["off"])
            if rng.random() < 0.03:
                off = rng.choice([HYPER // 2, HYPER // 4, -(HYPER // 4) - 1, 100000, -100000])
            fn = (src + off) % HYPER
            if rng.random() < 0.04:
                # the header has 32 bits: a frame number beyond the hyperframe that is congruent to a
                # frame the clock is about to reach (never forwarded, never a reason to fail)
                fn += HYPER * rng.choice([1, 2, 3, 100, 789])
            ver = sim.ver(t) if rng.random() < 0.9 else 1 - sim.ver(t)
            kind, bits = burst_bits(rng, gen)
            if not unique_tsc(bits):
                continue
            if rng.random() < 0.03:
                bits = bits[:rng.choice([0, 1, 100, 147])]        # odd lengths: accepted by the parser, refused at send time
            pwr = rng.choice([0, 0, 1, 10, 20, 63, 255, rng.randrange(256)])
            raw = tx_datagram(ver, fn, rng.randrange(8), pwr, bits) if len(bits) in (148, 444) else \
                bytes([(ver << 4) | rng.randrange(8)]) + fn.to_bytes(4, "big") + bytes([pwr]) + bytes(bits)
            s.data(t, raw)
        elif r < P["arr"] + P["tick"]:
            for _ in range(rng.choice([1, 1, 1, 2, 3])):
                s.tick()
        elif r < P["arr"] + P["tick"] + P["power"]:
            s.cmd(t, rng.choice(["CMD POWEROFF", "CMD POWERON", "CMD POWERON"]))
        elif r < P["arr"] + P["tick"] + P["power"] + P["fmt"]:
            s.cmd(t, "CMD SETFORMAT %d" % rng.choice([0, 1, 1, 2]))
        elif r < P["arr"] + P["tick"] + P["power"] + P["fmt"] + P["drop"]:
            s.cmd(t, rng.choice(["CMD FAKE_DROP %d" % rng.choice([0, 1, 2, 3, 6, -1]),
                                 "CMD FAKE_DROP %d %d" % (rng.choice([1, 2, 3, 6, -2]), rng.choice([1, 2, 3, 5, 0])),
                                 "CMD RFMUTE %d" % rng.choice([0, 1])]))
        elif r < P["arr"] + P["tick"] + P["power"] + P["fmt"] + P["drop"] + P["simp"]:
            s.cmd(t, rng.choice([
                "CMD SETTA %d" % rng.choice([0, 1, 2, 63, -1, -128, 127]),
                "CMD SETPOWER %d" % rng.choice([0, 3, 10, 20, 60]),
                "CMD FAKE_TOA %d %d" % (rng.choice([0, 256, -256, 1000, -1000, 32000]), rng.choice([0, 0, 5, 100])),
                "CMD FAKE_TOA %d" % rng.choice([1, -1, 256, -256]),
                "CMD FAKE_RSSI %d %d" % (rng.choice([-60, -50, -110, -80, -119]), rng.choice([0, 0, 1, 3, -1])),
                "CMD FAKE_RSSI %d" % rng.choice([1, -1, 5, -5]),
                "CMD FAKE_CI %d %d" % (rng.choice([90, 0, -30, 1270, -1270]), rng.choice([0, 0, 5, 10])),
                "CMD FAKE_CI %d" % rng.choice([1, -1, 10])]))
        else:
            r2 = rng.random()
            if r2 < 0.2:
                # a refused re-configuration in the middle of traffic: routing must stay as it was
                k = rng.randint(1, 3)
                ma = [rng.choice(FREQS) for _ in range(2 * k)]
                s.cmd(t, rng.choice([
                    "CMD SETFH %d %d %s" % (rng.choice([64, 100, 255, -1]), rng.randrange(64), " ".join(str(x) for x in ma)),
                    "CMD SETFH %d %d %s" % (rng.randrange(64), rng.randrange(64), " ".join(str(x) for x in ma[:-1])),
                    "CMD SETFH %d" % rng.randrange(64), "CMD RXTUNE", "CMD TXTUNE", "CMD RXTUNE 1 2"]))
            elif r2 < 0.6:
                k = rng.randint(1, 4)
                ma = [rng.choice(FREQS) for _ in range(2 * k)]
                s.cmd(t, "CMD SETFH %d %d %s" % (rng.randrange(64), rng.randrange(64), " ".join(str(x) for x in ma)))
            else:
                s.cmd(t, "CMD %s %d" % (rng.choice(["RXTUNE", "TXTUNE"]), rng.choice(FREQS)))
    # drain: tick past everything that is still queued, then power off
    if g.running:
        for _ in range(7):
            s.tick()
    for t in range(n):
        s.cmd(t, "CMD POWEROFF")
    return s.trace()


def flood_session(ctx, sid):
    """Many bursts pending at once on one transceiver (L1 scheduling far ahead, or a clock that
    stalls): every accepted burst still has exactly one of the outcomes of C03."""
    import rand_burst_gen
    rng = ctx.rng
    seed_random(rng)
    sim = mk_sim(rng, argv=CONFIGS[0], start=rng.choice([None, HYPER - 40]))
    s = Session(sid, sim)
    gen = rand_burst_gen.RandBurstGen()
    setup_pair(s, rng)
    for t in range(len(sim.trx)):
        s.cmd(t, "CMD SETFORMAT %d" % rng.choice([0, 1]))
        s.cmd(t, "CMD POWERON")
    g = sim.app.clck_gen
    t = rng.choice([0, 1])
    nfr = rng.randint(66, 80)                     # frames ahead, 8 timeslots each: 528..640 bursts
    src = g.clck_src
    _, bits = burst_bits(rng, gen, "nb")
    order = [(k, tn) for k in range(1, nfr + 1) for tn in range(8)]
    if rng.random() < 0.5:
        rng.shuffle(order)
    for k, tn in order:
        s.data(t, tx_datagram(sim.ver(t), (src + k) % HYPER, tn, 0, bits))
    for _ in range(nfr + 3):
        s.tick()
    for u in range(len(sim.trx)):
        s.cmd(u, "CMD POWEROFF")
    return s.trace()


def traffic_stats(ctx, traces):
    nd = nb = nn = ns = 0
    for t in traces:
        ctx.count()
        for e in t["ev"]:
            if e["e"] == "tick":
                for o in e["outs"]:
                    if o["kind"] == "data":
                        nd += 1
                        if len(o["raw"]) <= 12:
                            nn += 1
                ns += len(e["stales"])
            elif e["e"] == "data" and e["acc"]:
                nb += 1
        ctx.distinct(t["id"] + str(t["cfg"]["argv"]) + str(len(t["ev"])))
    ctx.extra.update(bursts_accepted=nb, datagrams_delivered=nd, nope_indications=nn, stale_reports=ns)
    return nd


def binding_selftest(ctx, accepted):
    """Demonstrate the binding: corrupt one recorded field / drop one event of an
    accepted session and require FakeTrxTrace to reject it at that event."""
    import copy
    cands = []
    for tr in accepted[:40]:
        for i, e in enumerate(tr["ev"]):
            if e["e"] == "cmd" and e.get("outs") and len(tr["ev"]) > i + 3:
                t = copy.deepcopy(tr)
                t["id"] = "selftest-reply"
                t["ev"][i]["outs"][0]["raw"][-2] ^= 1
                cands.append((t, i))
                t = copy.deepcopy(tr)
                t["id"] = "selftest-state"
                t["ev"][i]["proj"]["trx"][0]["ta"] += 1
                cands.append((t, i))
                break
        if cands:
            break
    for tr in accepted[:40]:
        ticks = [i for i, e in enumerate(tr["ev"]) if e["e"] == "tick" and any(o["kind"] == "data" for o in e["outs"])]
        if ticks:
            t = copy.deepcopy(tr)
            t["id"] = "selftest-dropped-datagram"
            i = ticks[0]
            t["ev"][i]["outs"] = [o for o in t["ev"][i]["outs"] if o["kind"] != "data"]
            cands.append((t, i))
            t = copy.deepcopy(tr)
            t["id"] = "selftest-dropped-event"
            del t["ev"][i]
            cands.append((t, i))
            break
    if not cands:
        return
    res, stats = tlc.validate_traces("FakeTrxTrace.tla", "FakeTrxTrace.cfg", [c[0] for c in cands], scratch=ctx.scratch,
                                     chunk="balance", parallel=2, timeout=900)
    out = {}
    rid = {v["id"]: v for v in res}
    for (t, i) in cands:
        v = rid[t["id"]]
        out[t["id"]] = dict(rejected_at=v["reached"] + 1, corrupted_event=i + 1, tag=v["tag"])
        if v["reached"] == v["n"] or v["reached"] > i + 1:
            raise tlc.MachineryError("binding self-test: corrupted session %s was not rejected at the corrupted event "
                                     "(reached %d of %d, corrupted %d)" % (t["id"], v["reached"], v["n"], i + 1))
    ctx.extra["binding_selftest"] = out


def restart_replay_session(ctx, sid):
    """C02: the same frame numbers occur again after the shared clock was stopped and
    restarted while a hopping child transceiver (which owns no clock and is not
    managed by the MS) stayed powered on and was re-configured in between."""
    rng = ctx.rng
    seed_random(rng)
    start = rng.choice([0, 5, HYPER - 2, rng.randrange(HYPER)])
    sim = mk_sim(rng, argv=["--trx", "127.0.0.1:6700/1"], start=start)
    s = Session(sid, sim)
    f1, f2 = rng.sample(FREQS, 2)
    s.cmd(0, "CMD RXTUNE %d" % f2)
    s.cmd(0, "CMD TXTUNE %d" % f1)
    s.cmd(1, "CMD RXTUNE %d" % f1)
    s.cmd(1, "CMD TXTUNE %d" % f2)

    def setfh():
        n = rng.randint(2, 4)
        ma = []
        for _ in range(n):
            ma += [rng.choice([f1, rng.choice(FREQS)]), rng.choice(FREQS)]
        s.cmd(2, "CMD SETFH %d %d %s" % (rng.randrange(1, 64), rng.randrange(8), " ".join(str(x) for x in ma)))
    setfh()
    for t in (0, 1, 2):
        s.cmd(t, "CMD SETFORMAT %d" % rng.choice([0, 1]))
        s.cmd(t, "CMD POWERON")
    g = sim.app.clck_gen
    for rnd in range(rng.randint(2, 4)):
        for k in range(rng.randint(1, 3)):
            if g.running:
                s.data(0, tx_datagram(sim.ver(0), g.clck_src, rng.randrange(8), 0, bytes(rng.getrandbits(1) for _ in range(148))))
                s.tick()
        setfh()                                   # live re-configuration of the hopping child
        s.cmd(0, "CMD POWEROFF")
        s.cmd(1, "CMD POWEROFF")                  # clock stops; the MS child keeps running
        s.cmd(0, "CMD POWERON")
        s.cmd(1, "CMD POWERON")                   # clock restarts from its first frame
    for k in range(3):
        if g.running:
            s.data(0, tx_datagram(sim.ver(0), g.clck_src, rng.randrange(8), 0, bytes(148)))
            s.tick()
    return s.trace()
