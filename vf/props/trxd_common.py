"""Shared driver for C01 / C04 (and the parser clause of C14): TRXD message
codec records judged by TLC against spec/TrxdPdu.tla."""
import os
import sys

from .. import tlc
from ..core import ROOT

sys.path.insert(0, os.path.join(ROOT, "harness", "py"))


def klass(rec):
    m = rec.get("m") or {}
    if rec["e"] in ("enc",):
        return "%s-v%s%s" % (rec["cls"], m.get("ver"), "-reused-object" if rec.get("reused") else "")
    if rec["e"] == "dec":
        raw = rec["raw"]
        return "%s-parse-v%s" % (rec["cls"], (raw[0] >> 4) if raw else "none")
    return rec["e"]


def mc(ctx):
    r = tlc.run("TrxdMC.tla", "MC_Trxd.cfg", workers=4, timeout=1200)
    ctx.require_ok("MC TrxdMC GB=3 (round trip, octet range, length for every boundary header x burst family)", r)
    ctx.log("MC TrxdMC", r.summary())


def python_records(ctx, n_enc, n_dec):
    import trxd_drv as D
    rng = ctx.rng
    recs, raws = [], []
    for k in range(n_enc):
        d = D.rand_tx(rng) if rng.random() < 0.35 else D.rand_rx(rng)
        rec, raw = D.enc_record("e%d" % k, d, rng.random() < 0.5)
        recs.append(rec)
        if raw is not None:
            raws.append((d["cls"], raw))
    # decoded messages encoded again (forwarding, sniffing, dumping), all four padding combinations
    for j in range(n_enc // 4):
        d = D.rand_tx(rng) if rng.random() < 0.3 else D.rand_rx(rng)
        rec = D.reenc_record("n%d" % j, d, rng.random() < 0.6, rng.random() < 0.6)
        if rec is not None:
            recs.append(rec)
    # the same laws on long-lived objects: a message object that is re-assigned and re-encoded (burst changed
    # in place), decoded by a decoder object that is reused across classes of messages / header versions
    objs = {}
    for j in range(n_enc // 3):
        d = D.rand_tx(rng) if rng.random() < 0.35 else D.rand_rx(rng)
        m = objs.get(d["cls"])
        if m is None:
            m = objs[d["cls"]] = D.mk_tx(d) if d["cls"] == "tx" else D.mk_rx(d)
            try:
                m.gen_msg(False)
            except Exception:
                pass            # judged below: the record of this very message carries the refusal
        if rng.random() < 0.5 and m.burst is not None and d["burst"]["has"] and len(m.burst) == len(d["burst"]["bits"]):
            pass                                    # same length: assign() changes the bits in place
        if rng.random() < 0.2:
            # an encoding attempt that fails half-way (after validation) on this very object must
            # leave nothing behind: the next valid message still encodes to exactly its own octets
            undo = D.poison(m, rng)
            try:
                m.gen_msg(rng.random() < 0.5)
            except Exception:
                pass
            undo()
        recs.append(D.enc_record_reused("u%d" % j, m, d, rng.random() < 0.5))
    # every (modulation, TSC set, TSC) combination once, both NOPE forms
    k = n_enc
    for mod in sorted(D.MODK):
        for ts in range(4 if mod == "GMSK" else 2):
            for tsc in range(8):
                d = D.rand_rx(rng)
                d.update(ver=1, nope=False, mod=mod, tscset=ts, tsc=tsc, ci=rng.randint(-1280, 1280),
                         burst=dict(has=True, bits=D.rand_soft(rng, D.MODK[mod] * D.GB)))
                rec, raw = D.enc_record("e%d" % k, d, False)
                recs.append(rec)
                k += 1
    recs += dataif_records(ctx, max(100, n_enc // 6))
    # candidates outside the documented value ranges: judged only if the toolkit itself accepts them
    cands = []
    for mod in sorted(D.MODK):
        for ts in range(4):
            for tsc in range(8):
                d = D.rand_rx(rng)
                d.update(ver=1, nope=False, mod=mod, tscset=ts, tsc=tsc, ci=rng.randint(-1280, 1280),
                         burst=dict(has=True, bits=D.rand_soft(rng, D.MODK[mod] * D.GB)))
                cands.append(d)
    for _ in range(max(60, n_enc // 10)):
        d = D.rand_tx(rng) if rng.random() < 0.35 else D.rand_rx(rng)
        f = rng.choice(["fn", "tn", "pwr", "rssi", "toa", "ci", "tsc", "blen"])
        if f == "fn":
            d["fn"] = rng.choice([D.HYPER, D.HYPER + 1, 2 ** 31 - 1])
        elif f == "tn":
            d["tn"] = rng.choice([8, 15])
        elif f == "pwr" and d["cls"] == "tx":
            d["pwr"] = rng.choice([256, 300])
        elif f == "rssi" and d["cls"] == "rx":
            d["rssi"] = rng.choice([-121, -46, -255, 0])
        elif f == "toa" and d["cls"] == "rx":
            d["toa"] = rng.choice([32768, -32769])
        elif f == "ci" and d["cls"] == "rx" and d["ver"] >= 1:
            d["ci"] = rng.choice([1281, -1281, 32767])
        elif f == "tsc" and d["cls"] == "rx" and d["ver"] >= 1:
            d["tsc"] = rng.choice([8, 15])
        elif f == "blen" and d["burst"]["has"]:
            n = len(d["burst"]["bits"]) + rng.choice([1, 2, -1, 148])
            d["burst"] = dict(has=True, bits=(D.rand_bits(rng, n) if d["cls"] == "tx" else D.rand_soft(rng, n)))
        else:
            continue
        cands.append(d)
    nacc = 0
    for j, d in enumerate(cands):
        rec = D.acc_record("a%d" % j, d, rng.random() < 0.5)
        if rec is not None:
            recs.append(rec)
            nacc += 1
    ctx.extra["candidates_outside_documented_ranges"] = len(cands)
    ctx.extra["of_which_accepted_by_the_toolkit"] = nacc
    for j in range(n_dec):
        cls, raw = rng.choice(raws)
        if rng.random() < 0.15:
            cls = "tx" if cls == "rx" else "rx"       # the other parser on the same octets
        recs.append(D.dec_record("d%d" % j, cls, D.mutate(rng, raw)))
    return recs


def dataif_records(ctx, n):
    """The same encoding law on the way the toolkit really sends: one long-lived DATAInterface
    (fake socket), valid messages sent through send_msg(), with sends that fail in between - a
    message whose encoding fails after validation (swallowed by send_msg) or a socket that refuses
    one datagram.  What reaches the wire for the next valid message must be its own octets only."""
    import trxd_drv as D
    import fakesock
    import udp_link
    import data_if
    rng = ctx.rng
    net = fakesock.Net()
    udp_link.socket = net
    dif = data_if.DATAInterface("127.0.0.1", 5802, "0.0.0.0", 5702)
    recs = []
    for j in range(n):
        d = D.rand_tx(rng) if rng.random() < 0.35 else D.rand_rx(rng)
        legacy = rng.random() < 0.5
        r = rng.random()
        if r < 0.3:
            d2 = D.rand_tx(rng) if rng.random() < 0.5 else D.rand_rx(rng)
            pm = D.mk_tx(d2) if d2["cls"] == "tx" else D.mk_rx(d2)
            D.poison(pm, rng)
            try:
                dif.send_msg(pm, rng.random() < 0.5)
            except Exception:
                pass
        elif r < 0.45:
            d2 = D.rand_tx(rng) if rng.random() < 0.5 else D.rand_rx(rng)
            pm = D.mk_tx(d2) if d2["cls"] == "tx" else D.mk_rx(d2)
            orig = dif.sock.sendto

            def refuse(*a, **kw):
                dif.sock.sendto = orig
                raise OSError(11, "Resource temporarily unavailable")
            dif.sock.sendto = refuse
            try:
                dif.send_msg(pm, rng.random() < 0.5)
            except OSError:
                pass
            dif.sock.sendto = orig
        net.take()
        m = D.mk_tx(d) if d["cls"] == "tx" else D.mk_rx(d)
        rec = dict(id="i%d" % j, e="enc", cls=d["cls"], m=d, legacy=legacy, reused=True)
        try:
            dif.send_msg(m, legacy)
            sent = net.take()
        except Exception as e:
            rec.update(raw=[], err=type(e).__name__, dec=dict(ok=False))
            recs.append(rec)
            continue
        if len(sent) != 1:
            rec.update(raw=[], err="datagrams-%d" % len(sent), dec=dict(ok=False))
        else:
            raw = sent[0][1]
            rec.update(raw=list(raw), err="", dec=D.parse_any(d["cls"], bytes(raw)))
        recs.append(rec)
    return recs


def trxcon_records(ctx, n_ind, n_req):
    import trxd_drv as D
    import trxcon_drv as T
    exe = T.build(ctx)
    rng = ctx.rng
    recs = []
    t = T.Trxcon(exe)
    for k in range(n_ind):
        d = D.rand_rx(rng)
        while d["ver"] != 0:
            d = D.rand_rx(rng)
        legacy = rng.random() < 0.6          # what the toolkit does towards L1
        try:
            raw = D.mk_rx(d).gen_msg(legacy)
        except Exception as e:      # a valid message must encode (also reported by the enc records)
            ctx.violation("C04/C04.enc.refused/rx-v0", "gen_msg() refused a valid version-0 Rx message (%s: %s)" % (type(e).__name__, e),
                          dict(message={k: (v if k != "burst" else len(v["bits"])) for k, v in d.items()}))
            continue
        # an active uplink channel: trxcon answers the RTS.ind of this very frame with a BURST.req
        # from inside the receive callback (both directions of trx_if.c in one call)
        ul = None
        if rng.random() < 0.4:
            ul = dict(pwr=D.pick_edge(rng, 0, 255), bits=D.rand_bits(rng, rng.choice([148, 148, 444])))
            t.uplink(ul["pwr"], ul["bits"])
        r = t.data(bytes(raw))
        if ul is not None and r is not None:
            t.uplink(0, [])
            req = [e for e in r["ev"] if e["k"] == "ul_req"]
            if req:
                sent = r["dsent"][0] if r["dsent"] else []
                recs.append(dict(id="cu%d" % k, e="creq", cls="tx", raw=sent, dec=D.parse_any("tx", bytes(sent)),
                                 req=dict(fn=req[0]["fn"], tn=req[0]["tn"], pwr=ul["pwr"], bits=ul["bits"])))
        if r is None:
            ctx.violation("C04/memory/trxcon-data-rx", "trx_if.c died on a valid version-0 datagram (rc=%s)" % (t.crashed[0],),
                          dict(raw=list(raw), stderr=t.crashed[1]))
            t = T.Trxcon(exe)
            continue
        ind = [e for e in r["ev"] if e["k"] == "burst_ind"]
        rec = dict(id="ci%d" % k, e="cind", cls="rx", m=d, legacy=legacy, rc=r["rc"],
                   ind=(dict(fn=ind[0]["fn"], tn=ind[0]["tn"], rssi=ind[0]["rssi"], toa=ind[0]["toa"], bits=ind[0]["bits"])
                        if ind else dict(fn=-1, tn=-1, rssi=0, toa=0, bits=[])))
        recs.append(rec)
    for k in range(n_req):
        fn = D.pick_edge(rng, 0, D.HYPER - 1, (255, 256, 65536))
        n = rng.choice([148, 148, 148, 444])
        bits = D.rand_bits(rng, n)
        req = dict(fn=fn, tn=rng.randint(0, 7), pwr=D.pick_edge(rng, 0, 255), bits=bits)
        r = t.burst(req["fn"], req["tn"], req["pwr"], bits)
        if r is None:
            ctx.violation("C04/memory/trxcon-burst-req", "trx_if.c died in burst_req (rc=%s)" % (t.crashed[0],),
                          dict(req=req, stderr=t.crashed[1]))
            t = T.Trxcon(exe)
            continue
        raw = r["dsent"][0] if r["dsent"] else []
        recs.append(dict(id="cr%d" % k, e="creq", cls="tx", req=req, raw=raw, dec=D.parse_any("tx", bytes(raw))))
    # runs of requests during which send() fails now and then (EAGAIN, ENOBUFS, ECONNREFUSED, EINTR)
    for k in range(max(4, n_req // 40)):
        if t.crashed:
            t = T.Trxcon(exe)
        nq = rng.randint(3, 7)
        fails = [False] + [rng.random() < 0.35 for _ in range(nq - 1)]
        if not any(fails):
            fails[rng.randrange(1, nq)] = True
        fn0 = rng.randrange(D.HYPER - 20)
        reqs, sent, died = [], [], False
        for i in range(nq):
            req = dict(fn=fn0 + i, tn=rng.randint(0, 7), pwr=rng.randrange(256), bits=D.rand_bits(rng, rng.choice([148, 148, 444])))
            if fails[i]:
                t.failsend(rng.choice([11, 105, 111, 4]), 1)
            r = t.burst(req["fn"], req["tn"], req["pwr"], req["bits"])
            if r is None:
                ctx.violation("C04/memory/trxcon-burst-req", "trx_if.c died in burst_req around a failing send() (rc=%s)" % (t.crashed[0],),
                              dict(req=req, stderr=t.crashed[1]))
                died = True
                break
            t.failsend(0, 0)
            reqs.append(req)
            sent.append(r["dsent"])
        if not died:
            recs.append(dict(id="cs%d" % k, e="cseq", cls="tx", reqs=reqs, sent=sent, failed=fails))
    t.close()
    if t.crashed:
        ctx.violation("C04/memory/trxcon-exit", "trx_if.c driver exited abnormally (rc=%s)" % (t.crashed[0],),
                      dict(stderr=t.crashed[1]))
    return recs


def judge(ctx, recs, prefixes, label):
    res, stats = tlc.validate_records("TrxdTrace.tla", "TrxdTrace.cfg", recs, scratch=ctx.scratch, parallel=5)
    ctx.add_tv(label, stats, len(recs))
    byid = {r["id"]: r for r in recs}
    for v in res:
        rec = byid[v["id"]]
        ctx.count()
        for tag in v["failed"]:
            if not tag.startswith(tuple(prefixes)):
                continue
            small = {k: (x if k not in ("raw",) else x[:24]) for k, x in rec.items()}
            ctx.violation("%s/%s/%s" % (ctx.pid, tag, klass(rec)),
                          "record %s violates %s" % (v["id"], tag), dict(record=small, raw_len=len(rec.get("raw", []))))
        key = (rec["e"], rec["cls"], str(rec.get("m", {}).get("ver")), str(rec.get("m", {}).get("mod")),
               len(rec.get("raw", [])), rec.get("legacy"))
        if rec["e"] != "dec" or rec["dec"].get("ok"):
            ctx.distinct(repr((key, rec.get("raw", [])[:12])))
    for r in recs[:2]:
        ctx.sample({k: (x if k != "raw" else x[:16] + ["..."]) for k, x in r.items() if k not in ("dec", "m")})
