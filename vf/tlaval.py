"""Parser for TLA+ values as printed by TLC (state dumps, PrintT, simulation
files): integers, strings, booleans, tuples <<..>>, sets {..}, records
[a |-> 1, ..], functions (k :> v @@ ..).  Sets become lists, records and
functions dicts."""
import re


class _P:
    def __init__(self, s):
        self.s = s
        self.i = 0

    def ws(self):
        while self.i < len(self.s) and self.s[self.i] in " \t\r\n":
            self.i += 1

    def eat(self, tok):
        self.ws()
        if self.s.startswith(tok, self.i):
            self.i += len(tok)
            return True
        return False

    def expect(self, tok):
        if not self.eat(tok):
            raise ValueError("expected %r at %d: %r" % (tok, self.i, self.s[self.i:self.i + 40]))

    def value(self):
        self.ws()
        s = self.s
        if self.eat("<<"):
            out = []
            if self.eat(">>"):
                return out
            while True:
                out.append(self.value())
                if self.eat(">>"):
                    return out
                self.expect(",")
        if self.eat("{"):
            out = []
            if self.eat("}"):
                return out
            while True:
                out.append(self.value())
                if self.eat("}"):
                    return out
                self.expect(",")
        if self.eat("["):
            out = {}
            if self.eat("]"):
                return out
            while True:
                self.ws()
                m = re.compile(r"[A-Za-z_][A-Za-z0-9_]*").match(s, self.i)
                if not m:
                    raise ValueError("record field expected at %d" % self.i)
                k = m.group(0)
                self.i = m.end()
                self.expect("|->")
                out[k] = self.value()
                if self.eat("]"):
                    return out
                self.expect(",")
        if self.eat("("):
            out = {}
            while True:
                k = self.value()
                self.expect(":>")
                v = self.value()
                out[k if not isinstance(k, list) else tuple(k)] = v
                if self.eat(")"):
                    return out
                self.expect("@@")
        if s[self.i] == '"':
            j = self.i + 1
            buf = []
            while s[j] != '"':
                if s[j] == "\\":
                    j += 1
                buf.append(s[j])
                j += 1
            self.i = j + 1
            return "".join(buf)
        m = re.compile(r"-?\d+").match(s, self.i)
        if m:
            self.i = m.end()
            return int(m.group(0))
        m = re.compile(r"[A-Za-z_][A-Za-z0-9_]*").match(s, self.i)
        if m:
            self.i = m.end()
            w = m.group(0)
            if w == "TRUE":
                return True
            if w == "FALSE":
                return False
            return w
        raise ValueError("cannot parse at %d: %r" % (self.i, s[self.i:self.i + 40]))


def parse(text):
    p = _P(text)
    v = p.value()
    p.ws()
    if p.i != len(text):
        raise ValueError("trailing text at %d: %r" % (p.i, text[p.i:p.i + 40]))
    return v


_STATE_HDR = re.compile(r"^(?:STATE_\d+ ==|State \d+:.*|\\\* <.*>)\s*$")


def parse_state(block):
    """Parse one printed state (`/\\ var = value` conjuncts) into a dict."""
    out = {}
    parts = re.split(r"^\s*/\\ ", block, flags=re.M)
    for part in parts:
        part = part.strip()
        if not part:
            continue
        m = re.match(r"([A-Za-z_][A-Za-z0-9_]*) = ", part)
        if not m:
            continue
        out[m.group(1)] = parse(part[m.end():].strip())
    return out


def parse_sim_file(path):
    """Parse a file written by `tlc -simulate file=...`: returns the list of
    states (dicts) of that behaviour, each with key '_action' if known."""
    txt = open(path).read()
    states = []
    cur = []
    act = None
    acts = []
    for ln in txt.splitlines():
        m = re.match(r"^\\\* <(\w+)", ln)
        if m:
            act = m.group(1)
            continue
        if re.match(r"^STATE_\d+ ==", ln):
            if cur:
                states.append("\n".join(cur))
            cur = []
            acts.append(act)
            rest = ln.split("==", 1)[1]
            if rest.strip():
                cur.append(rest)
            continue
        if ln.startswith("====") or ln.startswith("----"):
            continue
        cur.append(ln)
    if cur:
        states.append("\n".join(cur))
    out = []
    for a, b in zip(acts, states):
        d = parse_state(b)
        d["_action"] = a
        out.append(d)
    return out
