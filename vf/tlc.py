"""Run TLC (model checking, trace validation, simulation) and parse its output.

Every job runs in its own scratch directory (copy of the needed spec files is
not required: TLC is started with the spec directory as cwd and -metadir in the
scratch dir).  Results come back as TlcResult; a non-parsable or crashing TLC
is a machinery failure (MachineryError), never a property verdict.
"""
import json
import os
import re
import shutil
import subprocess
import tempfile
import time

ROOT = os.path.dirname(os.path.dirname(os.path.abspath(__file__)))
SPEC_DIR = os.path.join(ROOT, "spec")
JAR = "/opt/veriftools/tla/tla2tools.jar"
DEPS = "/opt/veriftools/tla/CommunityModules-deps.jar"


class MachineryError(Exception):
    pass


class TlcResult:
    def __init__(self):
        self.ok = False            # completed without any error
        self.generated = 0
        self.distinct = 0
        self.depth = 0
        self.violation = None      # dict(kind, name, trace) or None
        self.prints = []           # raw PrintT lines
        self.coverage = {}         # action name -> (distinct, total)
        self.out = ""
        self.wall = 0.0
        self.cmd = ""

    def summary(self):
        return dict(ok=self.ok, generated=self.generated, distinct=self.distinct,
                    depth=self.depth, wall_s=round(self.wall, 2),
                    violation=(self.violation or {}).get("name"))


_RE_STATES = re.compile(r"^(\d+) states generated, (\d+) distinct states found")
_RE_DEPTH = re.compile(r"The depth of the complete state graph search is (\d+)")
_RE_INV = re.compile(r"Error: Invariant (\S+) is violated")
_RE_ACT = re.compile(r"Error: Action property (\S+) is violated")
_RE_POST = re.compile(r"Error: (?:The )?[Pp]ostcondition (\S+)")
_RE_COV = re.compile(r"^<(\w+) line \d+, col \d+ to line \d+, col \d+ of module (\w+)>: (\d+):(\d+)")


def java_cmd(heap="4g", extra_props=(), serial_gc=False):
    cmd = ["java", "-XX:+UseSerialGC" if serial_gc else "-XX:+UseParallelGC", "-Xss64m", "-Xmx" + heap]
    if serial_gc:
        cmd += ["-XX:TieredStopAtLevel=4", "-XX:CICompilerCount=2"]
    cmd += list(extra_props)
    cmd += ["-cp", JAR + ":" + DEPS, "tlc2.TLC"]
    return cmd


def run(module, cfg, *, workers=1, env=None, simulate=None, depth=None, seed=None,
        timeout=1800, coverage=False, heap="6g", spec_dir=SPEC_DIR, scratch=None,
        extra=(), dfs=False, allow_violation=True):
    """Run TLC on spec_dir/module.tla with spec_dir/cfg.

    Returns TlcResult.  Raises MachineryError if TLC could not be run to a
    verdict (parse error, Java exception, timeout).
    """
    own = scratch is None
    if own:
        scratch = tempfile.mkdtemp(prefix="vf-tlc-")
    meta = os.path.join(scratch, "meta-%d" % (time.time_ns() % 10**9))
    props = []
    if dfs:
        props.append("-Dtlc2.tool.queue.IStateQueue=StateDeque")
    cmd = java_cmd(heap, props, serial_gc=(workers == 1))
    cmd += ["-workers", str(workers), "-metadir", meta, "-noGenerateSpecTE"]
    if coverage:
        cmd += ["-coverage", "1"]
    if simulate is not None:
        cmd += ["-simulate", simulate]
    if depth is not None:
        cmd += ["-depth", str(depth)]
    if seed is not None:
        cmd += ["-seed", str(seed)]
    cmd += list(extra)
    cmd += ["-config", cfg, module]
    e = dict(os.environ)
    e.pop("JAVA_TOOL_OPTIONS", None)
    if env:
        e.update({k: str(v) for k, v in env.items()})
    res = TlcResult()
    res.cmd = " ".join(cmd)
    t0 = time.time()
    try:
        p = subprocess.run(cmd, cwd=spec_dir, env=e, stdout=subprocess.PIPE,
                           stderr=subprocess.STDOUT, timeout=timeout, text=True,
                           errors="replace")
    except subprocess.TimeoutExpired:
        subprocess.run(["pkill", "-f", meta], check=False)
        raise MachineryError("TLC timeout after %ss: %s" % (timeout, res.cmd))
    finally:
        if own:
            shutil.rmtree(scratch, ignore_errors=True)
        else:
            shutil.rmtree(meta, ignore_errors=True)
    res.wall = time.time() - t0
    out = p.stdout
    res.out = out
    lines = out.splitlines()
    in_trace = False
    trace = []
    for ln in lines:
        m = _RE_STATES.match(ln)
        if m:
            res.generated, res.distinct = int(m.group(1)), int(m.group(2))
        m = re.match(r"^The number of states generated: (\d+)", ln)
        if m and simulate is not None:
            res.generated = int(m.group(1))
            res.distinct = max(res.distinct, 0)
        m = _RE_DEPTH.search(ln)
        if m:
            res.depth = int(m.group(1))
        m = _RE_COV.match(ln)
        if m:
            res.coverage[m.group(1)] = (int(m.group(3)), int(m.group(4)))
        if ln.startswith("<<") or ln.startswith('"') or ln.startswith("[") or ln.startswith("{"):
            if not in_trace:
                res.prints.append(ln)
        m = _RE_INV.search(ln)
        if m:
            res.violation = dict(kind="invariant", name=m.group(1))
        m = _RE_ACT.search(ln)
        if m:
            res.violation = dict(kind="action", name=m.group(1))
        m = _RE_POST.search(ln)
        if m and res.violation is None:
            res.violation = dict(kind="postcondition", name=m.group(1).rstrip("."))
        if "Error: Deadlock reached" in ln:
            res.violation = dict(kind="deadlock", name="deadlock")
        if "is violated" in ln and "Temporal properties" in ln:
            res.violation = dict(kind="temporal", name="temporal")
        if ln.startswith("Error: The behavior up to this point is:") or \
           ln.startswith("Error: The following behavior constitutes a counter-example"):
            in_trace = True
            continue
        if in_trace:
            if _RE_STATES.match(ln) or ln.startswith("Finished in") or ln.startswith("The number of states"):
                in_trace = False
            else:
                trace.append(ln)
    if res.violation is not None:
        res.violation["trace"] = "\n".join(trace)
    completed = ("Model checking completed. No error has been found." in out) or \
                (simulate is not None and p.returncode == 0)
    if res.violation is None and not completed:
        # simulation mode ends differently; treat rc=0 as fine
        tail = "\n".join(lines[-40:])
        raise MachineryError("TLC failed (rc=%d):\n%s\ncmd: %s" % (p.returncode, tail, res.cmd))
    res.ok = res.violation is None
    return res


def sany(module, spec_dir=SPEC_DIR):
    cmd = ["java", "-cp", JAR + ":" + DEPS, "tla2sany.SANY", module]
    p = subprocess.run(cmd, cwd=spec_dir, stdout=subprocess.PIPE, stderr=subprocess.STDOUT, text=True)
    ok = p.returncode == 0 and "Semantic errors" not in p.stdout and "Parse Error" not in p.stdout \
        and "Could not parse" not in p.stdout and "*** Errors" not in p.stdout
    return ok, p.stdout


def validate_traces(module, cfg, traces, *, scratch, timeout=1800, chunk=None, env=None,
                    heap="6g", dfs=False, parallel=1):
    """Batch trace validation.

    `traces` is a list of dicts with at least {"id":..., "ev":[...]}.  The trace
    spec reads IOEnv.TRACE_FILE and writes IOEnv.OUT_FILE: a JSON array of
    records {id, reached, n, tag} (one per trace, in order).  Returns
    (results list, stats dict).  Chunks may run in parallel processes.
    """
    from concurrent.futures import ThreadPoolExecutor
    if not traces:
        return [], dict(generated=0, distinct=0, wall=0.0, jobs=0)
    if chunk == "balance":
        # greedy bin packing by event count into `parallel` bins
        bins = [[0, []] for _ in range(max(1, parallel))]
        for t in sorted(traces, key=lambda t: -len(t["ev"])):
            b = min(bins, key=lambda b: b[0])
            b[0] += len(t["ev"]) + 5
            b[1].append(t)
        chunks = [b[1] for b in bins if b[1]]
    else:
        if chunk is None:
            chunk = len(traces)
        chunks = [traces[i:i + chunk] for i in range(0, len(traces), chunk)]

    def one(ix_chunk):
        ix, ch = ix_chunk
        tf = os.path.join(scratch, "traces-%s-%d.json" % (module, ix))
        of = os.path.join(scratch, "out-%s-%d.json" % (module, ix))
        with open(tf, "w") as f:
            json.dump(scrub(ch), f, separators=(",", ":"))
        e = dict(TRACE_FILE=tf, OUT_FILE=of)
        if env:
            e.update(env)
        r = run(module, cfg, workers=1, env=e, timeout=timeout, scratch=scratch, heap=heap, dfs=dfs)
        if not r.ok:
            raise MachineryError("trace spec %s reported %s:\n%s" % (module, r.violation, r.out[-3000:]))
        if not os.path.exists(of):
            raise MachineryError("trace spec %s wrote no result file:\n%s" % (module, r.out[-3000:]))
        with open(of) as f:
            out = json.load(f)
        os.unlink(tf)
        os.unlink(of)
        if len(out) != len(ch):
            raise MachineryError("trace spec %s: %d results for %d traces" % (module, len(out), len(ch)))
        return out, r

    results = []
    gen = dist = 0
    wall = 0.0
    with ThreadPoolExecutor(max_workers=max(1, parallel)) as ex:
        for out, r in ex.map(one, list(enumerate(chunks))):
            results.extend(out)
            if os.environ.get("VERIF_DEBUG"):
                print("  tv chunk: %d traces, %d states, %.1fs" % (len(out), r.distinct, r.wall))
            gen += r.generated
            dist += r.distinct
            wall += r.wall
    return results, dict(generated=gen, distinct=dist, wall=round(wall, 2), jobs=len(chunks))


def scrub(x):
    """Values TLC's JSON reader cannot take (null, non-integral floats, integers beyond 32 bit)
    are replaced by numbers no specification range contains, so that a record carrying a field the
    code left unset or overflowed is *judged* (and rejected by the clause about that field)
    instead of stopping the model checker.  Nothing is replaced on data the specification accepts."""
    if x is None:
        return -99999
    if isinstance(x, bool) or isinstance(x, str):
        return x
    if isinstance(x, int):
        return x if -2 ** 31 < x < 2 ** 31 else (2 ** 31 - 1 if x > 0 else -(2 ** 31 - 1))
    if isinstance(x, float):
        return int(x) if x == int(x) and abs(x) < 2 ** 31 else -99998
    if isinstance(x, dict):
        return {k: scrub(v) for k, v in x.items()}
    if isinstance(x, (list, tuple)):
        return [scrub(v) for v in x]
    return str(x)


def validate_records(module, cfg, recs, *, scratch, timeout=1800, parallel=6, env=None, heap="4g"):
    """Batch evaluation of independent records (pure-function conformance).

    The records spec (see spec/RecKit.tla) steps through IOEnv.TRACE_FILE (a
    JSON array of records with an "id"), evaluates every tagged clause of the
    specification on each record and writes to IOEnv.OUT_FILE a JSON array of
    {id, failed:[tags]}.  Returns (list aligned with recs, stats)."""
    from concurrent.futures import ThreadPoolExecutor
    if not recs:
        return [], dict(generated=0, distinct=0, wall=0.0, jobs=0)
    n = max(1, min(parallel, (len(recs) + 199) // 200))
    size = min((len(recs) + n - 1) // n, 3000)       # bounds the heap of one TLC process (long datagrams)
    chunks = [recs[i:i + size] for i in range(0, len(recs), size)]

    def one(ix_chunk):
        ix, ch = ix_chunk
        tf = os.path.join(scratch, "recs-%s-%d-%d.json" % (module, ix, time.time_ns() % 10**9))
        of = tf.replace("recs-", "rout-")
        with open(tf, "w") as f:
            json.dump(scrub(ch), f, separators=(",", ":"))
        e = dict(TRACE_FILE=tf, OUT_FILE=of)
        if env:
            e.update(env)
        r = run(module, cfg, workers=1, env=e, timeout=timeout, scratch=scratch, heap=heap)
        if not r.ok:
            raise MachineryError("records spec %s reported %s:\n%s" % (module, r.violation, r.out[-3000:]))
        if not os.path.exists(of):
            raise MachineryError("records spec %s wrote no result file:\n%s" % (module, r.out[-3000:]))
        with open(of) as f:
            out = json.load(f)
        os.unlink(tf)
        os.unlink(of)
        if len(out) != len(ch):
            raise MachineryError("records spec %s: %d results for %d records" % (module, len(out), len(ch)))
        return out, r

    results = []
    gen = dist = 0
    wall = 0.0
    with ThreadPoolExecutor(max_workers=max(1, parallel)) as ex:
        for out, r in ex.map(one, list(enumerate(chunks))):
            results.extend(out)
            gen += r.generated
            dist += r.distinct
            wall += r.wall
    return results, dict(generated=gen, distinct=dist, wall=round(wall, 2), jobs=len(chunks))
